#!/bin/bash
# stops every running check.py driver and solver (used only during development)
for p in $(pgrep -x python3); do
  if tr '\0' ' ' < /proc/$p/cmdline | grep -q "check\.py"; then kill $p; fi
done
sleep 1
pkill -x cbmc
pkill -x goto-instrument
exit 0
