#!/bin/bash
# Development helper: runs the thorough tier of the listed properties one after another, with the
# output (evidence/, replays/) redirected to /verif/thorough so that the committed quick-tier
# evidence is left alone.  usage: ./run_thorough.sh C12 C13 ...
cd /verif
for p in "$@"; do
  VERIF_OUT=/verif/thorough ./check.py $p --tier thorough --jobs 12 --cap-timeout 5400 > /verif/thorough/$p.log 2>&1
  echo "$p exit $?" >> /verif/thorough/status.log
done
