//! C12 — try_reserve: failure without panic, change or leak.
use crate::sym::*;
use allocator_api2::alloc::{AllocError, Allocator, Layout};
use core::ptr::NonNull;
use hashbrown::verif as hv;
use hashbrown::{HashTable, TryReserveError};

pub static mut R_CALLS: usize = 0;
pub static mut R_LAST: (usize, usize) = (0, 0);
/// refuses every request, after checking that the requested layout is valid
#[derive(Clone, Copy, Default)]
pub struct RefuseAll;
unsafe impl Allocator for RefuseAll {
    fn allocate(&self, l: Layout) -> Result<NonNull<[u8]>, AllocError> {
        unsafe {
            assert!(l.align().is_power_of_two());
            assert!(l.size() <= isize::MAX as usize - (l.align() - 1)); // never an invalid layout
            R_CALLS += 1;
            R_LAST = (l.size(), l.align());
        }
        Err(AllocError)
    }
    unsafe fn deallocate(&self, _p: NonNull<u8>, _l: Layout) {
        assert!(false, "nothing was ever allocated");
    }
}

/// All 2^64 values of `additional`, on the unallocated table: never panics; CapacityOverflow exactly
/// when the table is not representable, otherwise AllocError carrying the refused layout.
pub fn overflow_all<T>() {
    unsafe { R_CALLS = 0 };
    let mut t: HashTable<T, RefuseAll> = HashTable::new_in(RefuseAll);
    let additional: usize = any();
    let r = t.try_reserve(additional, |_| 0);
    let (size, ctrl_align) = hv::v_table_layout::<T>();
    if additional == 0 {
        assert!(r.is_ok());
        unsafe { assert!(R_CALLS == 0) };
        return;
    }
    // reference: representability in u128
    let repr = match hv::v_capacity_to_buckets(additional, size, ctrl_align) {
        None => None,
        Some(b) => {
            let data = (size as u128) * (b as u128);
            let padded = (data + ctrl_align as u128 - 1) & !(ctrl_align as u128 - 1);
            let total = padded + b as u128 + hv::GROUP_WIDTH as u128;
            if total <= (isize::MAX as usize - (ctrl_align - 1)) as u128 { Some((total as usize, b)) } else { None }
        }
    };
    match r {
        Ok(()) => assert!(false), // the allocator refuses everything
        Err(TryReserveError::CapacityOverflow) => {
            assert!(repr.is_none());
            unsafe { assert!(R_CALLS == 0) };
        }
        Err(TryReserveError::AllocError { layout }) => {
            let (total, _b) = repr.unwrap();
            unsafe {
                assert!(R_CALLS == 1);
                assert!(R_LAST == (layout.size(), layout.align())); // carries the refused layout
            }
            assert!(layout.size() == total && layout.align() == ctrl_align);
        }
    }
    assert!(t.len() == 0 && t.capacity() == 0);
    kani::cover!(matches!(r, Err(TryReserveError::CapacityOverflow)), "overflow");
    kani::cover!(matches!(r, Err(TryReserveError::AllocError { .. })), "alloc error");
}

pub struct Huge(pub [u8; (1 << 61) - 8]);
pub struct Huge60(pub [u8; (1 << 60) - 4]);

/// Non-empty table, allocator refuses the j-th request (j symbolic: 0 = refuse, 1 = grant):
/// on Err the table is bit-identical and nothing leaked; on Ok capacity >= len + additional.
pub fn fail_unchanged<const N: usize, const N2: usize>(items: usize, deleted: usize, additional: usize) {
    reset_alloc();
    reset_ledger();
    let h: [u64; K] = any();
    let mut t: HashTable<D, LedgerAlloc> = HashTable::with_capacity_in(capreq(N), LedgerAlloc);
    let st = fill::<D, _, N>(hv::raw_of_table(&mut t), Spec { items, deleted, kind: InvKind::Full, h: &h, distinct: true, id_is_slot: false, layout: None, concrete_tags: None });
    let p0 = hv::raw_of_table_ref(&t).v_ctrl_ptr();
    let refuse: bool = any();
    unsafe { A_FAIL_AT = if refuse { 1 } else { usize::MAX } }; // request #0 was with_capacity_in
    let r = t.try_reserve(additional, |v| h[v.id as usize]);
    let raw = hv::raw_of_table_ref(&t);
    match &r {
        Err(e) => {
            assert!(refuse);
            match e {
                TryReserveError::AllocError { layout } => unsafe {
                    assert!(A_REFUSED == (layout.size(), layout.align()));
                },
                TryReserveError::CapacityOverflow => assert!(false),
            }
            // exactly as before
            assert!(raw.v_ctrl_ptr() == p0 && buckets_of(raw) == N);
            let post = snap::<D, _, N>(raw);
            let mut i = 0;
            while i < N {
                assert!(post.c[i] == st.c[i]);
                if st.c[i] < 0x80 {
                    assert!(post.e[i] == st.e[i] && post.x[i] == st.x[i]);
                }
                i += 1;
            }
            assert!(post.mirror_ok && post.items == st.items && post.growth_left == st.growth_left);
            unsafe { assert!(A_LIVE == 1) };
        }
        Ok(()) => {
            assert!(t.capacity() >= items + additional);
            assert!(t.len() == items);
            unsafe { assert!(A_LIVE == 1) };
            if !refuse {
                assert!(buckets_of(raw) == N2 || buckets_of(raw) == N);
            }
        }
    }
    let q = any_id();
    assert!(drops(q) == 0); // nothing dropped
    kani::cover!(r.is_err(), "refused");
    kani::cover!(r.is_ok(), "granted");
    drop(t);
    unsafe { assert!(A_LIVE == 0) };
    assert!(drops(q) == st.mult(q) as u8);
}
