//! C07 — HashSet algebra against boolean membership vectors. Two independent symbolic pre-states
//! with different symbolic hashers and occupancy patterns.
use crate::sym::*;
use hashbrown::verif as hv;
use hashbrown::HashSet;

pub type S = HashSet<Key, TabHasher>;
type E = (Key, ());

pub static mut DEF_H: [u64; K] = [0; K];
impl Default for TabHasher {
    fn default() -> Self {
        TabHasher { h: unsafe { DEF_H } }
    }
}

pub fn mk_set<const N: usize>(items: usize, deleted: usize) -> (S, St<N>, [u64; K]) {
    let h: [u64; K] = any();
    let mut s: S = HashSet::with_capacity_and_hasher(capreq(N), TabHasher { h });
    let st = fill::<E, _, N>(
        hv::raw_of_set(&mut s),
        Spec { items, deleted, kind: InvKind::Full, h: &h, distinct: true, id_is_slot: false, layout: None, concrete_tags: None },
    );
    (s, st, h)
}
fn member<const N: usize>(st: &St<N>) -> [bool; K] {
    let mut m = [false; K];
    let mut i = 0;
    while i < N {
        if st.c[i] < 0x80 {
            m[st.e[i] as usize] = true;
        }
        i += 1;
    }
    m
}
fn count(m: &[bool; K]) -> usize {
    let mut n = 0;
    let mut i = 0;
    while i < K {
        if m[i] {
            n += 1;
        }
        i += 1;
    }
    n
}

/// op 0 union, 1 intersection, 2 difference, 3 symmetric_difference: driven with next() to
/// exhaustion; each element once; size_hint brackets the true remaining count at every step.
pub fn algebra<const NA: usize, const NB: usize>(ia: usize, ib: usize, op: u8, steps: usize) {
    let (a, sa, _) = mk_set::<NA>(ia, 0);
    let (b, sb, _) = mk_set::<NB>(ib, 0);
    let ma = member(&sa);
    let mb = member(&sb);
    let mut want = [false; K];
    let mut i = 0;
    while i < K {
        want[i] = match op {
            0 => ma[i] || mb[i],
            1 => ma[i] && mb[i],
            2 => ma[i] && !mb[i],
            _ => ma[i] != mb[i],
        };
        i += 1;
    }
    let total = count(&want);
    let mut cnt = [0u8; K];
    let mut yielded = 0usize;
    macro_rules! drive {
        ($it:expr) => {{
            let mut it = $it;
            let mut j = 0;
            let mut done = false;
            while j < NA + NB {
                if j >= steps {
                    break;
                }
                let (lo, hi) = it.size_hint();
                let rem = total - yielded;
                assert!(lo <= rem);
                if let Some(hi) = hi {
                    assert!(rem <= hi);
                }
                match it.next() {
                    None => {
                        done = true;
                        break;
                    }
                    Some(k) => {
                        cnt[k.id as usize] += 1;
                        yielded += 1;
                        assert!(yielded <= total);
                        assert!(want[k.id as usize] && cnt[k.id as usize] == 1); // a member of the result, once
                    }
                }
                j += 1;
            }
            if done {
                assert!(it.next().is_none());
                assert!(yielded == total);
            }
        }};
    }
    if op == 0 {
        drive!(a.union(&b));
    } else if op == 1 {
        drive!(a.intersection(&b));
    } else if op == 2 {
        drive!(a.difference(&b));
    } else {
        drive!(a.symmetric_difference(&b));
    }
    let q = any_id();
    assert!(cnt[q as usize] <= want[q as usize] as u8);
    core::mem::forget(a);
    core::mem::forget(b);
}

/// is_subset / is_superset / is_disjoint / == give the mathematical answer; == is symmetric.
pub fn predicates<const NA: usize, const NB: usize>(which: u8) {
    let (a, sa, _) = mk_set::<NA>(SYM, SYM);
    let (b, sb, _) = mk_set::<NB>(SYM, SYM);
    let ma = member(&sa);
    let mb = member(&sb);
    let mut sub = true;
    let mut sup = true;
    let mut dis = true;
    let mut i = 0;
    while i < K {
        if ma[i] && !mb[i] {
            sub = false;
        }
        if mb[i] && !ma[i] {
            sup = false;
        }
        if ma[i] && mb[i] {
            dis = false;
        }
        i += 1;
    }
    if which == 0 {
        assert!(a.is_subset(&b) == sub);
    } else if which == 1 {
        assert!(a.is_superset(&b) == sup);
    } else if which == 2 {
        assert!(a.is_disjoint(&b) == dis);
    } else {
        assert!((a == b) == (sub && sup));
        assert!((b == a) == (sub && sup));
    }
    kani::cover!(sub && !sup, "strict subset");
    kani::cover!(sub && sup && sa.items > 0, "equal, different layouts");
    core::mem::forget(a);
    core::mem::forget(b);
}

/// assigning operators: op 0 |=, 1 &=, 2 ^=, 3 -=  (A has room: no growth)
pub fn assign_ops<const NA: usize, const NB: usize>(ia: usize, ib: usize, op: u8) {
    let (mut a, sa, ha) = mk_set::<NA>(ia, 0);
    let (b, sb, _) = mk_set::<NB>(ib, 0);
    let ma = member(&sa);
    let mb = member(&sb);
    if op == 0 {
        a |= &b;
    } else if op == 1 {
        a &= &b;
    } else if op == 2 {
        a ^= &b;
    } else {
        a -= &b;
    }
    let raw = hv::raw_of_set_ref(&a);
    assert!(buckets_of(raw) == NA);
    let post = snap::<E, _, NA>(raw);
    assert!(inv::<NA>(&post, InvKind::Full, &ha, true, false));
    let q = any_id() as usize;
    let want = match op {
        0 => ma[q] || mb[q],
        1 => ma[q] && mb[q],
        2 => ma[q] != mb[q],
        _ => ma[q] && !mb[q],
    };
    assert!((post.mult(q as u8) == 1) == want);
    assert!(a.contains(&Key { id: q as u8, payload: 0 }) == want);
    assert!(a.len() == post.count_full());
    core::mem::forget(a);
    core::mem::forget(b);
}

/// by-reference operators build a fresh set (S: Default): op 0 |, 1 &, 2 ^, 3 -
pub fn ref_ops<const NA: usize, const NB: usize>(ia: usize, ib: usize, op: u8) {
    unsafe { DEF_H = any() };
    let (a, sa, _) = mk_set::<NA>(ia, 0);
    let (b, sb, _) = mk_set::<NB>(ib, 0);
    let ma = member(&sa);
    let mb = member(&sb);
    let r: S = if op == 0 { &a | &b } else if op == 1 { &a & &b } else if op == 2 { &a ^ &b } else { &a - &b };
    let q = any_id() as usize;
    let want = match op {
        0 => ma[q] || mb[q],
        1 => ma[q] && mb[q],
        2 => ma[q] != mb[q],
        _ => ma[q] && !mb[q],
    };
    assert!(r.contains(&Key { id: q as u8, payload: 0 }) == want);
    core::mem::forget(r);
    core::mem::forget(a);
    core::mem::forget(b);
}

/// op 0 insert, 1 replace, 2 take, 3 get_or_insert, 4 get_or_insert_with (equivalent value),
/// 5 remove, 6 get_or_insert_with (NON-equivalent value: must not return when the key is absent),
/// 7 entry().insert / or_insert, 8 contains/get via borrowed form
pub fn elem_ops<const N: usize, const N2: usize>(items: usize, deleted: usize, op: u8) {
    let (mut s, st, h) = mk_set::<N>(items, deleted);
    let k = any_id();
    let p: u8 = any(); // payload of the probe value (not part of Eq/Hash)
    let old = st.lookup(k); // aux == stored payload for set elements
    let present = old.is_some();
    let mut expect_present = present;
    let mut expect_payload = old;
    if op == 0 {
        let r = s.insert(Key { id: k, payload: p });
        assert!(r == !present);
        expect_present = true;
        if !present {
            expect_payload = Some(p);
        } // insert keeps the old element
    } else if op == 1 {
        let r = s.replace(Key { id: k, payload: p });
        assert!(r.map(|x| x.payload) == old); // returns the old one
        expect_present = true;
        expect_payload = Some(p); // stores the new one
    } else if op == 2 {
        let r = s.take(&KeyRef(k));
        assert!(r.map(|x| x.payload) == old);
        expect_present = false;
    } else if op == 3 {
        let r = s.get_or_insert(Key { id: k, payload: p });
        assert!(r.id == k && r.payload == old.unwrap_or(p)); // keeps the old one
        expect_present = true;
        expect_payload = Some(old.unwrap_or(p));
    } else if op == 4 {
        let r = s.get_or_insert_with(&KeyRef(k), |q| Key { id: q.0, payload: p });
        assert!(r.id == k && r.payload == old.unwrap_or(p));
        expect_present = true;
        expect_payload = Some(old.unwrap_or(p));
    } else if op == 5 {
        let r = s.remove(&Key { id: k, payload: 0 });
        assert!(r == present);
        expect_present = false;
    } else if op == 6 {
        let other = any_id();
        assume(other != k);
        let r = s.get_or_insert_with(&KeyRef(k), |_| Key { id: other, payload: p });
        // returning is only possible when the key was already there (closure not used)
        assert!(present);
        assert!(r.id == k);
    } else if op == 7 {
        match s.entry(Key { id: k, payload: p }) {
            hashbrown::hash_set::Entry::Occupied(o) => {
                assert!(present && o.get().payload == old.unwrap());
            }
            hashbrown::hash_set::Entry::Vacant(v) => {
                assert!(!present);
                assert!(v.get().id == k);
                v.insert();
                expect_payload = Some(p);
            }
        }
        expect_present = true;
    } else {
        assert!(s.contains(&KeyRef(k)) == present);
        assert!(s.get(&KeyRef(k)).map(|x| x.payload) == old);
    }
    let raw = hv::raw_of_set_ref(&s);
    let g = buckets_of(raw) != N;
    let q = any_id();
    let got = if !g {
        let post = snap::<E, _, N>(raw);
        assert!(inv::<N>(&post, InvKind::Full, &h, true, false));
        assert!(s.len() == post.count_full());
        post.lookup(q)
    } else {
        assert!(buckets_of(raw) == N2);
        let post = snap::<E, _, N2>(raw);
        assert!(inv::<N2>(&post, InvKind::Full, &h, true, false));
        assert!(s.len() == post.count_full());
        post.lookup(q)
    };
    if q == k {
        assert!(got.is_some() == expect_present);
        if expect_present {
            assert!(got == expect_payload);
        }
    } else {
        assert!(got == st.lookup(q));
    }
    core::mem::forget(s);
}

/// As `algebra`, consumed through the iterators' `fold` specialisations in one call.
pub fn algebra_fold<const NA: usize, const NB: usize>(ia: usize, ib: usize, op: u8) {
    let (a, sa, _) = mk_set::<NA>(ia, 0);
    let (b, sb, _) = mk_set::<NB>(ib, 0);
    let ma = member(&sa);
    let mb = member(&sb);
    let f = |mut c: [u8; K], k: &Key| {
        c[k.id as usize] += 1;
        c
    };
    let cnt = if op == 0 {
        a.union(&b).fold([0u8; K], f)
    } else if op == 1 {
        a.intersection(&b).fold([0u8; K], f)
    } else if op == 2 {
        a.difference(&b).fold([0u8; K], f)
    } else {
        a.symmetric_difference(&b).fold([0u8; K], f)
    };
    let q = any_id() as usize;
    let want = match op {
        0 => ma[q] || mb[q],
        1 => ma[q] && mb[q],
        2 => ma[q] && !mb[q],
        _ => ma[q] != mb[q],
    };
    assert!(cnt[q] == want as u8);
    core::mem::forget(a);
    core::mem::forget(b);
}
