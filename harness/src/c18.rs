//! C18 — every scanner primitive against its byte-by-byte definition, for EVERY group of bytes
//! (2^128 groups on SSE2, 2^64 on the portable back-end) — run on both back-ends.
use hashbrown::verif as hv;
const W: usize = hv::GROUP_WIDTH;

fn wellformed(b: &[u8; W]) -> bool {
    let mut ok = true;
    let mut i = 0;
    while i < W {
        if b[i] >= 0x80 && b[i] != 0xFF && b[i] != 0x80 {
            ok = false;
        }
        i += 1;
    }
    ok
}

pub fn match_tag_all() {
    let b: [u8; W] = kani::any();
    let tag: u8 = kani::any();
    kani::assume(tag < 0x80);
    let m = hv::v_group_match_tag(&b, tag);
    let mut i = 0;
    let mut lowest_true: Option<usize> = None;
    let mut false_pos = false;
    while i < W {
        let truth = b[i] == tag;
        let got = (m >> i) & 1 == 1;
        if truth {
            assert!(got); // never misses a match
            if lowest_true.is_none() {
                lowest_true = Some(i);
            }
        }
        if got && !truth {
            // tolerated only on the portable back-end: differs in the lowest bit only, and only
            // at a position above a true match
            assert!(W == 8);
            assert!(b[i] ^ tag == 1);
            assert!(lowest_true.is_some());
            false_pos = true;
        }
        i += 1;
    }
    assert!(m >> W == 0);
    kani::cover!(lowest_true == Some(W - 1), "match in the last lane");
    kani::cover!(m == 0, "no match");
}

pub fn match_special_all() {
    let b: [u8; W] = kani::any();
    let (me, any, lz, tz) = hv::v_group_match_empty(&b);
    let (med, low) = hv::v_group_match_empty_or_deleted(&b);
    let mf = hv::v_group_match_full(&b);
    let wf = wellformed(&b);
    let mut i = 0;
    let mut first_special: Option<usize> = None;
    while i < W {
        let e = (me >> i) & 1 == 1;
        if b[i] == 0xFF {
            assert!(e); // EMPTY is always reported
        }
        if wf {
            assert!(e == (b[i] == 0xFF)); // exact on well-formed control bytes
        }
        assert!(((med >> i) & 1 == 1) == (b[i] >= 0x80));
        assert!(((mf >> i) & 1 == 1) == (b[i] < 0x80));
        if b[i] >= 0x80 && first_special.is_none() {
            first_special = Some(i);
        }
        i += 1;
    }
    assert!(me >> W == 0 && med >> W == 0 && mf >> W == 0);
    assert!(low == first_special);
    assert!(any == (me != 0));
    // leading/trailing zeros are in lane units and agree with the bitset
    let mut t = 0;
    while t < W && (me >> t) & 1 == 0 {
        t += 1;
    }
    let mut l = 0;
    while l < W && (me >> (W - 1 - l)) & 1 == 0 {
        l += 1;
    }
    assert!(tz == t);
    assert!(lz == l);
    kani::cover!(wf && me == 0 && med != 0, "only tombstones");
    kani::cover!(wf && low == Some(W - 1), "special only in last lane");
}

pub fn match_full_order_all() {
    let b: [u8; W] = kani::any();
    let (ord, n) = hv::v_group_match_full_order(&b);
    // the iterator yields exactly the full lanes, in increasing lane order
    let mut i = 0;
    let mut k = 0;
    while i < W {
        if b[i] < 0x80 {
            assert!(k < n);
            assert!(((ord >> (5 * k)) & 31) as usize == i);
            k += 1;
        }
        i += 1;
    }
    assert!(k == n);
}

pub fn convert_all() {
    let b: [u8; W] = kani::any();
    let cv = hv::v_group_convert(&b);
    let mut i = 0;
    while i < W {
        assert!(cv[i] == if b[i] >= 0x80 { 0xFF } else { 0x80 });
        i += 1;
    }
}

pub fn static_empty_and_consts() {
    let s = hv::v_static_empty();
    let mut i = 0;
    while i < W {
        assert!(s[i] == 0xFF);
        i += 1;
    }
    assert!(hv::TAG_EMPTY == 0xFF && hv::TAG_DELETED == 0x80);
    let h: u64 = kani::any();
    let t = hv::v_tag_full(h);
    assert!(t < 0x80);
    assert!(t == (h >> 57) as u8);
}
