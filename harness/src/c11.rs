//! C11 — clone / clone_from are equal and independent; == ignores layout, capacity, hasher.
use crate::c04::{DC, CL_DROPS, CL_MADE};
use crate::sym::*;
use hashbrown::verif as hv;
use hashbrown::{HashMap, HashTable};

type TC = HashTable<DC, LedgerAlloc>;
static ZH: [u64; K] = [0; K];

fn mk<const N: usize>(h: &[u64; K]) -> (TC, St<N>) {
    let mut t: TC = HashTable::with_capacity_in(capreq(N), LedgerAlloc);
    let st = fill::<DC, _, N>(hv::raw_of_table(&mut t), Spec { items: SYM, deleted: SYM, kind: InvKind::Full, h, distinct: true, id_is_slot: false, layout: None, concrete_tags: None });
    (t, st)
}
fn reset() {
    reset_ledger();
    reset_alloc();
    unsafe {
        CL_DROPS = [0; K];
        CL_MADE = [0; K];
        crate::c04::disarm();
    }
}

/// clone(): same contents and layout in a different block, each element cloned exactly once,
/// then a removal on one side leaves the other side untouched.
pub fn clone_step<const N: usize>(mutate_clone: bool) {
    reset();
    let h: [u64; K] = any();
    let (mut t, st) = mk::<N>(&h);
    let mut c = t.clone();
    let q = any_id();
    unsafe { assert!(CL_MADE[q as usize] == st.mult(q) as u8 && CL_DROPS[q as usize] == 0) };
    assert!(drops(q) == 0);
    let rc = hv::raw_of_table_ref(&c);
    let rt = hv::raw_of_table_ref(&t);
    assert!(buckets_of(rc) == N);
    assert!(rc.v_ctrl_ptr() != rt.v_ctrl_ptr()); // independently owned
    let sc = snap::<DC, _, N>(rc);
    assert!(inv::<N>(&sc, InvKind::Full, &h, true, true));
    let mut i = 0;
    while i < N {
        assert!(sc.c[i] == st.c[i]);
        if st.c[i] < 0x80 {
            assert!(sc.e[i] == st.e[i] && sc.x[i] == 1); // gen 1 = a clone, not the original
        }
        i += 1;
    }
    assert!(c.len() == t.len() && c.len() == st.items);
    // independence
    let k = any_id();
    if mutate_clone {
        if let Ok(o) = c.find_entry(h[k as usize], |v| v.id == k) {
            o.remove();
        }
        let st2 = snap::<DC, _, N>(hv::raw_of_table_ref(&t));
        let mut i = 0;
        while i < N {
            assert!(st2.c[i] == st.c[i]);
            i += 1;
        }
        assert!(t.len() == st.items);
    } else {
        if let Ok(o) = t.find_entry(h[k as usize], |v| v.id == k) {
            o.remove();
        }
        let sc2 = snap::<DC, _, N>(hv::raw_of_table_ref(&c));
        let mut i = 0;
        while i < N {
            assert!(sc2.c[i] == st.c[i]);
            i += 1;
        }
        assert!(c.len() == st.items);
    }
    drop(c);
    drop(t);
    unsafe {
        assert!(CL_DROPS[q as usize] == CL_MADE[q as usize]);
        assert!(A_LIVE == 0);
    }
    assert!(drops(q) == st.mult(q) as u8);
}

/// clone_from into a target in any state (NS == 1: unallocated source).
pub fn clone_from_step<const NT: usize, const NS: usize>() {
    reset();
    let h: [u64; K] = any();
    let (mut tgt, st_t) = mk::<NT>(&h);
    let mut src: TC = if NS == 1 { HashTable::new_in(LedgerAlloc) } else { HashTable::with_capacity_in(capreq(NS), LedgerAlloc) };
    let mut sc = [EMPTY; NS];
    let mut se = [0u8; NS];
    let mut src_items = 0;
    if NS > 1 {
        let st_s = fill::<DC, _, NS>(hv::raw_of_table(&mut src), Spec { items: SYM, deleted: SYM, kind: InvKind::Full, h: &h, distinct: true, id_is_slot: false, layout: None, concrete_tags: None });
        sc = st_s.c;
        se = st_s.e;
        src_items = st_s.items;
    }
    // RawTable::clone_from is what HashMap/HashSet::clone_from forward to (HashTable has no
    // clone_from of its own: it would be `*self = source.clone()`)
    Clone::clone_from(hv::raw_of_table(&mut tgt), hv::raw_of_table_ref(&src));
    let q = any_id();
    assert!(drops(q) == st_t.mult(q) as u8); // old contents of the target dropped exactly once
    assert!(tgt.len() == src_items && src.len() == src_items);
    let rt = hv::raw_of_table_ref(&tgt);
    if NS == 1 {
        assert!(rt.v_is_empty_singleton());
        unsafe { assert!(A_LIVE == 0) };
    } else {
        assert!(buckets_of(rt) == NS);
        assert!(rt.v_ctrl_ptr() != hv::raw_of_table_ref(&src).v_ctrl_ptr());
        let post = snap::<DC, _, NS>(rt);
        assert!(inv::<NS>(&post, InvKind::Full, &h, true, true));
        let mut i = 0;
        let mut m = 0u8;
        while i < NS {
            assert!(post.c[i] == sc[i]);
            if sc[i] < 0x80 {
                assert!(post.e[i] == se[i] && post.x[i] == 1);
                if se[i] == q {
                    m += 1;
                }
            }
            i += 1;
        }
        unsafe { assert!(CL_MADE[q as usize] == m && CL_DROPS[q as usize] == 0) };
        unsafe { assert!(A_LIVE == 2) }; // one block each, the target's old block returned
        // lookups in the clone work (same hasher)
        assert!(tgt.find(h[q as usize], |v| v.id == q).is_some() == (m > 0));
    }
    drop(tgt);
    unsafe { assert!(CL_DROPS[q as usize] == CL_MADE[q as usize]) };
    core::mem::forget(src);
}

/// HashMap ==: equal exactly when the same keys map to equal values — different hashers,
/// capacities, tombstones; symmetric.
pub fn map_eq<const NA: usize, const NB: usize>() {
    let ha: [u64; K] = any();
    let hb: [u64; K] = any();
    let (a, sa) = crate::c01::mk_map::<NA>(SYM, SYM, &ha);
    let (b, sb) = crate::c01::mk_map::<NB>(SYM, SYM, &hb);
    let mut same = true;
    let mut i = 0;
    while i < K {
        if sa.lookup(i as u8) != sb.lookup(i as u8) {
            same = false;
        }
        i += 1;
    }
    assert!((a == b) == same);
    assert!((b == a) == same);
    kani::cover!(same && sa.items >= 2, "equal maps, different layouts");
    kani::cover!(!same && sa.items == sb.items && sa.items >= 1, "same size, different contents");
    core::mem::forget(a);
    core::mem::forget(b);
}

/// clone_from with concrete occupancy counts of the target (it, dt) and the source (is_):
/// used for the configuration in which both tables report the same capacity() although their
/// bucket counts differ.
pub fn clone_from_counts<const NT: usize, const NS: usize>(it: usize, dt: usize, is_: usize) {
    reset();
    let h: [u64; K] = any();
    let mut tgt: TC = HashTable::with_capacity_in(capreq(NT), LedgerAlloc);
    let st_t = fill::<DC, _, NT>(hv::raw_of_table(&mut tgt), Spec { items: it, deleted: dt, kind: InvKind::Full, h: &h, distinct: true, id_is_slot: false, layout: None, concrete_tags: None });
    let mut src: TC = HashTable::with_capacity_in(capreq(NS), LedgerAlloc);
    let st_s = fill::<DC, _, NS>(hv::raw_of_table(&mut src), Spec { items: is_, deleted: 0, kind: InvKind::Full, h: &h, distinct: true, id_is_slot: false, layout: None, concrete_tags: None });
    assert!(tgt.capacity() == src.capacity());
    Clone::clone_from(hv::raw_of_table(&mut tgt), hv::raw_of_table_ref(&src));
    let rt = hv::raw_of_table_ref(&tgt);
    assert!(buckets_of(rt) == NS);
    let post = snap::<DC, _, NS>(rt);
    assert!(inv::<NS>(&post, InvKind::Full, &h, true, true));
    let q = any_id();
    assert!(post.mult(q) == st_s.mult(q));
    assert!(drops(q) == st_t.mult(q) as u8);
    assert!(tgt.len() == is_);
    unsafe { assert!(A_LIVE == 2) };
    core::mem::forget(tgt);
    core::mem::forget(src);
}

/// clone() of a table with concrete occupancy counts (tombstones included): the clone's counters
/// and free-slot accounting equal the source's.
pub fn clone_counts<const N: usize>(items: usize, deleted: usize) {
    reset();
    let h: [u64; K] = any();
    let mut t: TC = HashTable::with_capacity_in(capreq(N), LedgerAlloc);
    let st = fill::<DC, _, N>(hv::raw_of_table(&mut t), Spec { items, deleted, kind: InvKind::Full, h: &h, distinct: true, id_is_slot: false, layout: None, concrete_tags: None });
    let c = t.clone();
    let rc = hv::raw_of_table_ref(&c);
    assert!(buckets_of(rc) == N);
    let sc = snap::<DC, _, N>(rc);
    assert!(inv::<N>(&sc, InvKind::Full, &h, true, true));
    assert!(sc.growth_left == st.growth_left && sc.items == st.items);
    assert!(c.capacity() == t.capacity() && c.len() == t.len());
    let q = any_id();
    assert!(sc.mult(q) == st.mult(q));
    core::mem::forget(c);
    core::mem::forget(t);
}
