//! C08 — capacity contract (state part) and C13 — churn lemmas.
use crate::sym::*;
use hashbrown::verif as hv;
use hashbrown::HashTable;

type T = u32;
type TA = HashTable<T, LedgerAlloc>;

fn mk<const N: usize>(items: usize, deleted: usize, h: &[u64; K]) -> (TA, St<N>) {
    reset_alloc();
    let mut t: TA = HashTable::with_capacity_in(capreq(N), LedgerAlloc);
    let st = fill::<T, _, N>(hv::raw_of_table(&mut t), Spec { items, deleted, kind: InvKind::Full, h, distinct: false, id_is_slot: false, layout: None, concrete_tags: None });
    (t, st)
}

/// One-step lemma behind "inserting up to capacity()-len() absent keys performs no allocation":
/// from any state with growth_left >= 1 an insert makes no allocator call, keeps the bucket count
/// and lowers capacity()-len() by at most one.
pub fn no_alloc_insert<const N: usize>(items: usize, deleted: usize) {
    let h: [u64; K] = any();
    let (mut t, st) = mk::<N>(items, deleted, &h);
    assert!(st.growth_left >= 1);
    assert!(t.capacity() >= t.len());
    let room0 = t.capacity() - t.len();
    assert!(room0 == st.growth_left);
    let k = any_id();
    t.insert_unique(h[k as usize], T::mk(k, 0), |v| h[v.id() as usize]);
    unsafe { assert!(A_ALLOCS == 1 && A_FREES == 0) }; // only the original with_capacity_in
    assert!(buckets_of(hv::raw_of_table_ref(&t)) == N);
    assert!(t.capacity() >= t.len());
    assert!(t.capacity() - t.len() + 1 >= room0);
    assert!(t.allocation_size() == unsafe { A_LIVE_BYTES });
    core::mem::forget(t);
}

/// shrink_to(m) / shrink_to_fit contract, m concrete per instance.
pub fn shrink_contract<const N: usize>(items: usize, deleted: usize, m: usize) {
    let h: [u64; K] = any();
    let (mut t, st) = mk::<N>(items, deleted, &h);
    let cap0 = t.capacity();
    let bytes0 = t.allocation_size();
    t.shrink_to(m, |v| h[v.id() as usize]);
    let raw = hv::raw_of_table_ref(&t);
    assert!(t.len() == items);
    let want = if m < cap0 { m } else { cap0 };
    assert!(t.capacity() >= if items > want { items } else { want });
    assert!(t.allocation_size() <= bytes0); // never enlarges the allocation
    assert!(t.allocation_size() == unsafe { A_LIVE_BYTES }); // and reports what it holds
    let need = if items > m { items } else { m };
    if need == 0 {
        assert!(raw.v_is_empty_singleton()); // frees the allocation entirely
        unsafe { assert!(A_LIVE == 0) };
    } else {
        // no larger than a fresh with_capacity(max(len, m)) would be (or unchanged if already smaller)
        let (size, al) = hv::v_table_layout::<T>();
        let fresh = hv::v_capacity_to_buckets(need, size, al).unwrap();
        let b = buckets_of(raw);
        assert!(b == if fresh < N { fresh } else { N });
        unsafe { assert!(A_LIVE == 1) };
    }
    core::mem::forget(t);
}

/// C13 L2 (arithmetic, all table sizes): when an insert has to leave the current table, the next
/// size is at most twice the current one and at most 8x the live elements (+1) for tables >= 16.
pub fn growth_bound_all() {
    let k: u32 = any();
    assume(k >= 2 && k < 56);
    let b = 1usize << k;
    let cap = hv::v_bucket_mask_to_capacity(b - 1);
    let items: usize = any();
    assume(items <= cap);
    let new_items = items + 1;
    assume(new_items > cap / 2); // otherwise the table is rehashed in place (checked on the real code)
    let size: usize = any();
    let want = if new_items > cap + 1 { new_items } else { cap + 1 };
    let nb = hv::v_capacity_to_buckets(want, size, hv::GROUP_WIDTH).unwrap();
    assert!(nb <= 2 * b || b < 16);
    assert!(b < 16 || nb <= 8 * new_items);
    assert!(nb <= 32 || b >= 16);
}
