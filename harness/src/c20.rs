//! C20 — serde: bounded pre-reservation for every claimed size hint; last value wins; errors
//! part-way leak nothing; deserialize_in_place replaces the contents; Serialize emits every entry
//! exactly once. Harness-local Deserializer / MapAccess / SeqAccess / Serializer (the property is
//! about hashbrown's Visitors, which only ever see these traits).
use crate::sym::*;
use allocator_api2::alloc::{AllocError, Allocator, Global, Layout};
use core::fmt;
use core::ptr::NonNull;
use hashbrown::verif as hv;
use hashbrown::{HashMap, HashSet};
use serde::de::{self, Deserialize, DeserializeSeed, Deserializer, MapAccess, SeqAccess, Visitor};
use serde::forward_to_deserialize_any;
use serde::ser::{self, Serialize, SerializeMap, SerializeSeq, Serializer};

#[derive(Debug)]
pub struct E;
impl fmt::Display for E {
    fn fmt(&self, _f: &mut fmt::Formatter<'_>) -> fmt::Result {
        Ok(())
    }
}
impl de::Error for E {
    fn custom<T: fmt::Display>(_m: T) -> Self {
        E
    }
}
impl ser::Error for E {
    fn custom<T: fmt::Display>(_m: T) -> Self {
        E
    }
}
impl serde::de::StdError for E {}

pub const MAXE: usize = 3;
pub struct Src {
    pub items: [(u8, u8); MAXE],
    pub len: usize,
    pub pos: usize,
    pub hint: Option<usize>,
    pub fail_at: usize,
}
pub struct De<'a>(pub &'a mut Src);
impl<'de, 'a> Deserializer<'de> for De<'a> {
    type Error = E;
    fn deserialize_any<V: Visitor<'de>>(self, _v: V) -> Result<V::Value, E> {
        Err(E)
    }
    fn deserialize_map<V: Visitor<'de>>(self, v: V) -> Result<V::Value, E> {
        v.visit_map(MA(self.0))
    }
    fn deserialize_seq<V: Visitor<'de>>(self, v: V) -> Result<V::Value, E> {
        v.visit_seq(MA(self.0))
    }
    forward_to_deserialize_any! { bool i8 i16 i32 i64 i128 u8 u16 u32 u64 u128 f32 f64 char str string bytes byte_buf option unit unit_struct newtype_struct tuple tuple_struct struct enum identifier ignored_any }
}
pub struct MA<'a>(&'a mut Src);
impl<'de, 'a> MapAccess<'de> for MA<'a> {
    type Error = E;
    fn next_key_seed<S: DeserializeSeed<'de>>(&mut self, seed: S) -> Result<Option<S::Value>, E> {
        if self.0.pos == self.0.fail_at {
            return Err(E);
        }
        if self.0.pos >= self.0.len {
            return Ok(None);
        }
        seed.deserialize(U8De(self.0.items[self.0.pos].0)).map(Some)
    }
    fn next_value_seed<V: DeserializeSeed<'de>>(&mut self, seed: V) -> Result<V::Value, E> {
        let v = self.0.items[self.0.pos].1;
        self.0.pos += 1;
        seed.deserialize(U8De(v))
    }
    fn size_hint(&self) -> Option<usize> {
        self.0.hint
    }
}
impl<'de, 'a> SeqAccess<'de> for MA<'a> {
    type Error = E;
    fn next_element_seed<S: DeserializeSeed<'de>>(&mut self, seed: S) -> Result<Option<S::Value>, E> {
        if self.0.pos == self.0.fail_at {
            return Err(E);
        }
        if self.0.pos >= self.0.len {
            return Ok(None);
        }
        let v = self.0.items[self.0.pos].0;
        self.0.pos += 1;
        seed.deserialize(U8De(v)).map(Some)
    }
    fn size_hint(&self) -> Option<usize> {
        self.0.hint
    }
}
pub struct U8De(u8);
impl<'de> Deserializer<'de> for U8De {
    type Error = E;
    fn deserialize_any<V: Visitor<'de>>(self, v: V) -> Result<V::Value, E> {
        v.visit_u8(self.0)
    }
    forward_to_deserialize_any! { bool i8 i16 i32 i64 i128 u8 u16 u32 u64 u128 f32 f64 char str string bytes byte_buf option unit unit_struct newtype_struct seq tuple tuple_struct map struct enum identifier ignored_any }
}

/// value type with drop glue, deserialised from a u8
pub struct DV(pub u8);
impl Drop for DV {
    fn drop(&mut self) {
        unsafe {
            let i = self.0 as usize % K;
            DROPS[i] += 1;
        }
    }
}
impl<'de> Deserialize<'de> for DV {
    fn deserialize<Dz: Deserializer<'de>>(d: Dz) -> Result<Self, Dz::Error> {
        struct V;
        impl<'de> Visitor<'de> for V {
            type Value = DV;
            fn expecting(&self, _f: &mut fmt::Formatter<'_>) -> fmt::Result {
                Ok(())
            }
            fn visit_u8<Er: de::Error>(self, v: u8) -> Result<DV, Er> {
                unsafe { CLONES[v as usize % K] += 1 }; // construction ledger
                Ok(DV(v))
            }
        }
        d.deserialize_any(V)
    }
}

// allocator that checks the FIRST request against a bound and then ends the path
pub static mut FIRST_BOUND: usize = 0;
pub static mut SAW_REQUEST: bool = false;
#[derive(Clone, Copy, Default)]
pub struct FirstReqAlloc;
unsafe impl Allocator for FirstReqAlloc {
    fn allocate(&self, l: Layout) -> Result<NonNull<[u8]>, AllocError> {
        unsafe {
            SAW_REQUEST = true;
            assert!(l.size() <= FIRST_BOUND); // bounded whatever the input claims
            kani::assume(false); // nothing after the first request matters here
        }
        Global.allocate(l)
    }
    unsafe fn deallocate(&self, p: NonNull<u8>, l: Layout) {
        Global.deallocate(p, l)
    }
}
fn bound_for(size: usize) -> usize {
    // the block a table pre-sized for 4096 entries occupies
    let al = hv::GROUP_WIDTH;
    let b = hv::v_capacity_to_buckets(4096, size, al).unwrap();
    hv::v_calculate_layout_for(size, al, b).unwrap().0
}

/// (i) every Option<usize> hint (all 2^64 values): the reservation made before reading any
/// element is no larger than a 4096-entry table. which: 0 map, 1 set, 2 set in place.
pub fn hint_bounded(which: u8) {
    unsafe {
        DEF_H_SET();
        SAW_REQUEST = false;
    }
    let mut src = Src { items: any(), len: 0, pos: 0, hint: any(), fail_at: 99 };
    if which == 0 {
        unsafe { FIRST_BOUND = bound_for(2) };
        let r: Result<HashMap<u8, u8, TabHasher, FirstReqAlloc>, E> = HashMap::deserialize(De(&mut src));
        assert!(r.is_ok()); // reachable only when no request was made (hint 0 / None)
        assert!(r.unwrap().capacity() == 0);
    } else if which == 1 {
        unsafe { FIRST_BOUND = bound_for(1) };
        let r: Result<HashSet<u8, TabHasher, FirstReqAlloc>, E> = HashSet::deserialize(De(&mut src));
        assert!(r.is_ok());
    } else {
        unsafe { FIRST_BOUND = bound_for(1) };
        let mut s: HashSet<u8, TabHasher, FirstReqAlloc> = HashSet::with_hasher_in(TabHasher::default(), FirstReqAlloc);
        let r = HashSet::deserialize_in_place(De(&mut src), &mut s);
        assert!(r.is_ok());
    }
}
#[allow(non_snake_case)]
unsafe fn DEF_H_SET() {
    crate::c07::DEF_H = any();
}

/// (ii) + (iii): NE symbolic entries over keys < 4 with duplicates, pre-sized by an honest small
/// hint, optional failure at a symbolic position. Ok => last value wins, each key once;
/// Err => nothing leaked, nothing dropped twice, no block left.
pub fn map_entries<const NE: usize>(fail_at: usize) {
    reset_ledger();
    reset_alloc();
    unsafe { DEF_H_SET() };
    let items: [(u8, u8); MAXE] = any();
    let mut i = 0;
    while i < MAXE {
        assume(items[i].0 < 4);
        i += 1;
    }
    // fail_at concrete per instance (a symbolic position does not finish); fail_at > NE: no failure;
    // fail_at == NE: the error comes instead of the end-of-input marker
    let fails = fail_at <= NE;
    let mut src = Src { items, len: NE, pos: 0, hint: Some(NE), fail_at: if fails { fail_at } else { 99 } };
    let r: Result<HashMap<u8, DV, TabHasher, LedgerAlloc>, E> = HashMap::deserialize(De(&mut src));
    let q: u8 = any();
    assume(q < 4);
    match r {
        Ok(m) => {
            assert!(!fails);
            let mut want: Option<u8> = None;
            let mut n_distinct = 0;
            let mut i = 0;
            while i < NE {
                if items[i].0 == q {
                    want = Some(items[i].1);
                }
                let mut first = true;
                let mut j = 0;
                while j < i {
                    if items[j].0 == items[i].0 {
                        first = false;
                    }
                    j += 1;
                }
                if first {
                    n_distinct += 1;
                }
                i += 1;
            }
            assert!(m.get(&q).map(|d| d.0) == want); // last value wins
            assert!(m.len() == n_distinct); // each key once
            let mut n = 0;
            for _ in m.iter() {
                n += 1;
            }
            assert!(n == n_distinct);
            drop(m);
        }
        Err(_) => {
            assert!(fails);
        }
    }
    // every value that was built has been dropped exactly once; no block is left
    let mut v = 0;
    while v < K {
        unsafe { assert!(DROPS[v] == CLONES[v]) };
        v += 1;
    }
    unsafe { assert!(A_LIVE == 0) };

}

/// (iv) HashSet::deserialize_in_place replaces the previous contents.
pub fn set_in_place<const N: usize, const NE: usize>(items: usize) {
    let h: [u64; K] = any();
    unsafe { crate::c07::DEF_H = h };
    let mut s: HashSet<u8, TabHasher> = HashSet::with_capacity_and_hasher(capreq(N), TabHasher { h });
    // concrete number of old elements (symbolic counts re-open the resize paths of reserve/insert)
    let st = fill::<(u8, ()), _, N>(hv::raw_of_set(&mut s), Spec { items, deleted: 0, kind: InvKind::Full, h: &h, distinct: true, id_is_slot: false, layout: None, concrete_tags: None });
    let items: [(u8, u8); MAXE] = any();
    let mut i = 0;
    while i < MAXE {
        assume((items[i].0 as usize) < K);
        i += 1;
    }
    let mut src = Src { items, len: NE, pos: 0, hint: Some(0), fail_at: 99 };
    let r = HashSet::deserialize_in_place(De(&mut src), &mut s);
    assert!(r.is_ok());
    let q = any_id();
    let mut want = false;
    let mut i = 0;
    while i < NE {
        if items[i].0 == q {
            want = true;
        }
        i += 1;
    }
    assert!(s.contains(&q) == want); // old elements gone, exactly the input present
    kani::cover!(st.items >= 2, "target was not empty");
    core::mem::forget(s);
}
impl Elem for (u8, ()) {
    fn mk(id: u8, _aux: u8) -> Self {
        (id, ())
    }
    fn id(&self) -> u8 {
        self.0
    }
    fn aux(&self) -> u8 {
        0
    }
}
impl Elem for (u8, u8) {
    fn mk(id: u8, aux: u8) -> Self {
        (id, aux)
    }
    fn id(&self) -> u8 {
        self.0
    }
    fn aux(&self) -> u8 {
        self.1
    }
}

// ------------------------------------------------------------------ serialisation half
pub struct Tok {
    pub pairs: [(u8, u8); 8],
    pub n: usize,
    pub claimed: Option<usize>,
    pub pending_key: u8,
}
pub struct Ser<'a>(pub &'a mut Tok);
pub struct U8Ser;
macro_rules! no {
    ($($f:ident($($t:ty),*)),* $(,)?) => { $(fn $f(self, $(_: $t),*) -> Result<Self::Ok, E> { Err(E) })* };
}
impl Serializer for U8Ser {
    type Ok = u8;
    type Error = E;
    type SerializeSeq = ser::Impossible<u8, E>;
    type SerializeTuple = ser::Impossible<u8, E>;
    type SerializeTupleStruct = ser::Impossible<u8, E>;
    type SerializeTupleVariant = ser::Impossible<u8, E>;
    type SerializeMap = ser::Impossible<u8, E>;
    type SerializeStruct = ser::Impossible<u8, E>;
    type SerializeStructVariant = ser::Impossible<u8, E>;
    fn serialize_u8(self, v: u8) -> Result<u8, E> {
        Ok(v)
    }
    no! { serialize_bool(bool), serialize_i8(i8), serialize_i16(i16), serialize_i32(i32), serialize_i64(i64),
          serialize_u16(u16), serialize_u32(u32), serialize_u64(u64), serialize_f32(f32), serialize_f64(f64),
          serialize_char(char), serialize_str(&str), serialize_bytes(&[u8]), serialize_none(), serialize_unit(),
          serialize_unit_struct(&'static str), serialize_unit_variant(&'static str, u32, &'static str) }
    fn collect_str<T: ?Sized + fmt::Display>(self, _: &T) -> Result<u8, E> { Err(E) }
    fn serialize_some<T: ?Sized + Serialize>(self, _: &T) -> Result<u8, E> { Err(E) }
    fn serialize_newtype_struct<T: ?Sized + Serialize>(self, _: &'static str, _: &T) -> Result<u8, E> { Err(E) }
    fn serialize_newtype_variant<T: ?Sized + Serialize>(self, _: &'static str, _: u32, _: &'static str, _: &T) -> Result<u8, E> { Err(E) }
    fn serialize_seq(self, _: Option<usize>) -> Result<Self::SerializeSeq, E> { Err(E) }
    fn serialize_tuple(self, _: usize) -> Result<Self::SerializeTuple, E> { Err(E) }
    fn serialize_tuple_struct(self, _: &'static str, _: usize) -> Result<Self::SerializeTupleStruct, E> { Err(E) }
    fn serialize_tuple_variant(self, _: &'static str, _: u32, _: &'static str, _: usize) -> Result<Self::SerializeTupleVariant, E> { Err(E) }
    fn serialize_map(self, _: Option<usize>) -> Result<Self::SerializeMap, E> { Err(E) }
    fn serialize_struct(self, _: &'static str, _: usize) -> Result<Self::SerializeStruct, E> { Err(E) }
    fn serialize_struct_variant(self, _: &'static str, _: u32, _: &'static str, _: usize) -> Result<Self::SerializeStructVariant, E> { Err(E) }
}
impl<'a> Serializer for Ser<'a> {
    type Ok = ();
    type Error = E;
    type SerializeSeq = Ser<'a>;
    type SerializeTuple = ser::Impossible<(), E>;
    type SerializeTupleStruct = ser::Impossible<(), E>;
    type SerializeTupleVariant = ser::Impossible<(), E>;
    type SerializeMap = Ser<'a>;
    type SerializeStruct = ser::Impossible<(), E>;
    type SerializeStructVariant = ser::Impossible<(), E>;
    no! { serialize_bool(bool), serialize_i8(i8), serialize_i16(i16), serialize_i32(i32), serialize_i64(i64), serialize_u8(u8),
          serialize_u16(u16), serialize_u32(u32), serialize_u64(u64), serialize_f32(f32), serialize_f64(f64),
          serialize_char(char), serialize_str(&str), serialize_bytes(&[u8]), serialize_none(), serialize_unit(),
          serialize_unit_struct(&'static str), serialize_unit_variant(&'static str, u32, &'static str) }
    fn collect_str<T: ?Sized + fmt::Display>(self, _: &T) -> Result<(), E> { Err(E) }
    fn serialize_some<T: ?Sized + Serialize>(self, _: &T) -> Result<(), E> { Err(E) }
    fn serialize_newtype_struct<T: ?Sized + Serialize>(self, _: &'static str, _: &T) -> Result<(), E> { Err(E) }
    fn serialize_newtype_variant<T: ?Sized + Serialize>(self, _: &'static str, _: u32, _: &'static str, _: &T) -> Result<(), E> { Err(E) }
    fn serialize_seq(self, len: Option<usize>) -> Result<Self::SerializeSeq, E> {
        self.0.claimed = len;
        Ok(self)
    }
    fn serialize_tuple(self, _: usize) -> Result<Self::SerializeTuple, E> { Err(E) }
    fn serialize_tuple_struct(self, _: &'static str, _: usize) -> Result<Self::SerializeTupleStruct, E> { Err(E) }
    fn serialize_tuple_variant(self, _: &'static str, _: u32, _: &'static str, _: usize) -> Result<Self::SerializeTupleVariant, E> { Err(E) }
    fn serialize_map(self, len: Option<usize>) -> Result<Self::SerializeMap, E> {
        self.0.claimed = len;
        Ok(self)
    }
    fn serialize_struct(self, _: &'static str, _: usize) -> Result<Self::SerializeStruct, E> { Err(E) }
    fn serialize_struct_variant(self, _: &'static str, _: u32, _: &'static str, _: usize) -> Result<Self::SerializeStructVariant, E> { Err(E) }
}
impl<'a> SerializeMap for Ser<'a> {
    type Ok = ();
    type Error = E;
    fn serialize_key<T: ?Sized + Serialize>(&mut self, k: &T) -> Result<(), E> {
        self.0.pending_key = k.serialize(U8Ser)?;
        Ok(())
    }
    fn serialize_value<T: ?Sized + Serialize>(&mut self, v: &T) -> Result<(), E> {
        let v = v.serialize(U8Ser)?;
        assert!(self.0.n < 8);
        self.0.pairs[self.0.n] = (self.0.pending_key, v);
        self.0.n += 1;
        Ok(())
    }
    fn end(self) -> Result<(), E> {
        Ok(())
    }
}
impl<'a> SerializeSeq for Ser<'a> {
    type Ok = ();
    type Error = E;
    fn serialize_element<T: ?Sized + Serialize>(&mut self, v: &T) -> Result<(), E> {
        let v = v.serialize(U8Ser)?;
        assert!(self.0.n < 8);
        self.0.pairs[self.0.n] = (v, 0);
        self.0.n += 1;
        Ok(())
    }
    fn end(self) -> Result<(), E> {
        Ok(())
    }
}

/// (v, first half) Serialize emits every stored entry exactly once (and claims the right length).
pub fn serialize_emits_all<const N: usize>(set: bool) {
    let h: [u64; K] = any();
    let mut tok = Tok { pairs: [(0, 0); 8], n: 0, claimed: None, pending_key: 0 };
    let q = any_id();
    if set {
        let mut s: HashSet<u8, TabHasher> = HashSet::with_capacity_and_hasher(capreq(N), TabHasher { h });
        let st = fill::<(u8, ()), _, N>(hv::raw_of_set(&mut s), Spec { items: SYM, deleted: SYM, kind: InvKind::Safe, h: &h, distinct: true, id_is_slot: false, layout: None, concrete_tags: None });
        assert!(s.serialize(Ser(&mut tok)).is_ok());
        assert!(tok.n == st.items && tok.claimed == Some(st.items));
        let mut c = 0;
        let mut i = 0;
        while i < 8 {
            if i < tok.n && tok.pairs[i].0 == q {
                c += 1;
            }
            i += 1;
        }
        assert!(c == st.mult(q));
        core::mem::forget(s);
    } else {
        let mut m: HashMap<u8, u8, TabHasher> = HashMap::with_capacity_and_hasher(capreq(N), TabHasher { h });
        let st = fill::<(u8, u8), _, N>(hv::raw_of_map(&mut m), Spec { items: SYM, deleted: SYM, kind: InvKind::Safe, h: &h, distinct: true, id_is_slot: false, layout: None, concrete_tags: None });
        assert!(m.serialize(Ser(&mut tok)).is_ok());
        assert!(tok.n == st.items && tok.claimed == Some(st.items));
        let mut c = 0;
        let mut val = None;
        let mut i = 0;
        while i < 8 {
            if i < tok.n && tok.pairs[i].0 == q {
                c += 1;
                val = Some(tok.pairs[i].1);
            }
            i += 1;
        }
        assert!(c == st.mult(q));
        assert!(val == st.lookup(q));
        core::mem::forget(m);
    }
}

/// simplest variant: plain u8 values, no failure injection, NE entries, honest hint
pub fn map_entries_plain<const NE: usize>() {
    unsafe { DEF_H_SET() };
    let items: [(u8, u8); MAXE] = any();
    let mut i = 0;
    while i < MAXE {
        assume(items[i].0 < 4);
        i += 1;
    }
    let mut src = Src { items, len: NE, pos: 0, hint: Some(NE), fail_at: 99 };
    let r: Result<HashMap<u8, u8, TabHasher>, E> = HashMap::deserialize(De(&mut src));
    let m = r.unwrap();
    let q: u8 = any();
    assume(q < 4);
    let mut want: Option<u8> = None;
    let mut i = 0;
    while i < NE {
        if items[i].0 == q {
            want = Some(items[i].1);
        }
        i += 1;
    }
    assert!(m.get(&q).copied() == want);
    core::mem::forget(m);
}
