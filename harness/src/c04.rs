//! C04 — a panicking callback leaves a valid collection and no double drop (DESIGN section 5).
//! (a) callback-time validity: the callback itself asserts the invariant on the live table;
//! (b) panic-as-flag: the callback "panics" at its k-th invocation (k symbolic) and the scope
//!     guards of the real code run through the cfg(hashbrown_verif) unwind points.
use crate::sym::*;
use hashbrown::verif as hv;
use hashbrown::verif::RawTable;
use hashbrown::{HashMap, HashTable};

static ZH: [u64; K] = [0; K];
static mut CALLS: usize = 0;
static mut FAIL_AT: usize = usize::MAX;

fn tick_and_maybe_fail() -> bool {
    unsafe {
        let f = CALLS == FAIL_AT;
        CALLS += 1;
        if f {
            fail_now();
        }
        f
    }
}
pub unsafe fn disarm() {
    CALLS = 0;
    FAIL_AT = usize::MAX;
}
fn arm(max_calls: usize) {
    let k: usize = any();
    assume(k <= max_calls); // k == max_calls: no panic at all
    unsafe {
        CALLS = 0;
        FAIL_AT = k;
    }
}

// -------------------------------------------------------------------------------- hasher panics

/// reserve(additional) with the hasher panicking at its k-th call. `T` without drop glue.
/// grow path (N2 != N): on panic the table is bit-identical to the pre-state and the new block is
/// freed; in-place path: valid table, len() == #FULL, nothing duplicated.
pub fn hasher_panic_nodrop<const N: usize, const N2: usize>(full: u64, del: u64, additional: usize, tm: u8) {
    type T = u32;
    reset_alloc();
    let h = hashes_with_tags(tm);
    let mut t: HashTable<T, LedgerAlloc> = HashTable::with_capacity_in(capreq(N), LedgerAlloc);
    let items = full.count_ones() as usize;
    let deleted = del.count_ones() as usize;
    let st = fill::<T, _, N>(hv::raw_of_table(&mut t), Spec { items, deleted, kind: InvKind::Full, h: &h, distinct: true, id_is_slot: false, layout: Some((full, del)), concrete_tags: Some(tm) });
    let p0 = hv::raw_of_table_ref(&t).v_ctrl_ptr();
    arm(items + 2);
    let panicked = guarded(|| {
        t.reserve(additional, |v| {
            if tick_and_maybe_fail() {
                return 0;
            }
            h[v.id() as usize]
        })
    });
    let raw = hv::raw_of_table_ref(&t);
    let b = buckets_of(raw);
    if panicked {
        // never ends up with the new size after an unwind
        assert!(b == N);
        let post = snap::<T, _, N>(raw);
        assert!(inv::<N>(&post, InvKind::Safe, &h, false, false));
        assert!(t.len() == post.count_full()); // len() equals what it yields
        let mut n = 0;
        for _ in t.iter() {
            n += 1;
        }
        assert!(n == t.len());
        let q = any_id();
        assert!(post.mult(q) <= st.mult(q)); // nothing duplicated
        unsafe { assert!(A_LIVE == 1) }; // a new block, if any, was freed
        if N2 != N {
            // growth: contents unchanged
            assert!(raw.v_ctrl_ptr() == p0);
            let mut i = 0;
            while i < N {
                assert!(post.c[i] == st.c[i]);
                if st.c[i] < 0x80 {
                    assert!(post.e[i] == st.e[i] && post.x[i] == st.x[i]);
                }
                i += 1;
            }
            assert!(post.items == st.items && post.growth_left == st.growth_left);
        }
    } else {
        assert!(b == N2);
        assert!(t.len() == items);
    }
    kani::cover!(panicked, "hasher panicked");
    kani::cover!(!panicked, "no panic");
    core::mem::forget(t);
}

/// Same with an element type that has drop glue: every element is still present or was dropped
/// exactly once.
pub fn hasher_panic_drop<const N: usize, const N2: usize>(full: u64, del: u64, additional: usize, tm: u8) {
    reset_alloc();
    reset_ledger();
    let h = hashes_with_tags(tm);
    let mut t: HashTable<D, LedgerAlloc> = HashTable::with_capacity_in(capreq(N), LedgerAlloc);
    let items = full.count_ones() as usize;
    let deleted = del.count_ones() as usize;
    let st = fill::<D, _, N>(hv::raw_of_table(&mut t), Spec { items, deleted, kind: InvKind::Full, h: &h, distinct: true, id_is_slot: false, layout: Some((full, del)), concrete_tags: Some(tm) });
    arm(items + 2);
    let panicked = guarded(|| {
        t.reserve(additional, |v| {
            if tick_and_maybe_fail() {
                return 0;
            }
            h[v.id as usize]
        })
    });
    let raw = hv::raw_of_table_ref(&t);
    let b = buckets_of(raw);
    if panicked {
        assert!(b == N);
        let post = snap::<D, _, N>(raw);
        assert!(inv::<N>(&post, InvKind::Safe, &h, false, false));
        assert!(t.len() == post.count_full());
        let q = any_id();
        // still present, or dropped exactly once (never both, never neither)
        assert!(post.mult(q) as u8 + drops(q) == st.mult(q) as u8);
        unsafe { assert!(A_LIVE == 1) };
        if N2 != N {
            assert!(drops(q) == 0);
        }
    } else {
        assert!(b == N2 && t.len() == items);
    }
    kani::cover!(panicked, "hasher panicked");
    drop(t);
    let q = any_id();
    assert!(drops(q) == st.mult(q) as u8);
    unsafe { assert!(A_LIVE == 0) };
}

/// The in-place rehash routine entered directly (hook `v_rehash_in_place`; through the public API
/// it is reached from `reserve` when the free room is locked up in tombstones, which needs two
/// groups — too large for a symbolic pre-state, see DESIGN section 12). From ANY Inv state: hasher
/// panics at its k-th call => valid table, len() == #FULL == what iteration yields, every element
/// still present or (drop glue) dropped exactly once; no panic => same multiset, Inv.
pub fn rehash_hook_panic<const N: usize>(items: usize, with_drop_glue: bool) {
    reset_ledger();
    let h: [u64; K] = any();
    arm(items + 1);
    if with_drop_glue {
        let mut t: HashTable<D> = HashTable::with_capacity(capreq(N));
        let st = fill::<D, _, N>(hv::raw_of_table(&mut t), Spec { items, deleted: 0, kind: InvKind::Full, h: &h, distinct: true, id_is_slot: false, layout: None, concrete_tags: None });
        let panicked = guarded(|| unsafe {
            hv::raw_of_table(&mut t).v_rehash_in_place(|v| {
                if tick_and_maybe_fail() {
                    return 0;
                }
                h[v.id as usize]
            })
        });
        let post = snap::<D, _, N>(hv::raw_of_table_ref(&t));
        let q = any_id();
        if panicked {
            assert!(inv::<N>(&post, InvKind::Safe, &h, false, false));
            assert!(t.len() == post.count_full());
            assert!(post.mult(q) as u8 + drops(q) == st.mult(q) as u8);
        } else {
            assert!(inv::<N>(&post, InvKind::Full, &h, true, true));
            assert!(post.mult(q) == st.mult(q) && drops(q) == 0);
        }
        kani::cover!(panicked, "hasher panicked");
        drop(t);
        assert!(drops(q) == st.mult(q) as u8);
    } else {
        let mut t: HashTable<u32> = HashTable::with_capacity(capreq(N));
        let st = fill::<u32, _, N>(hv::raw_of_table(&mut t), Spec { items, deleted: 0, kind: InvKind::Full, h: &h, distinct: true, id_is_slot: false, layout: None, concrete_tags: None });
        let panicked = guarded(|| unsafe {
            hv::raw_of_table(&mut t).v_rehash_in_place(|v| {
                if tick_and_maybe_fail() {
                    return 0;
                }
                h[v.id() as usize]
            })
        });
        let post = snap::<u32, _, N>(hv::raw_of_table_ref(&t));
        let q = any_id();
        if panicked {
            assert!(inv::<N>(&post, InvKind::Safe, &h, false, false));
            assert!(t.len() == post.count_full()); // len() equals the number of elements it holds
            let mut n = 0;
            for _ in t.iter() {
                n += 1;
            }
            assert!(n == t.len()); // ... and yields
            assert!(post.mult(q) <= st.mult(q));
        } else {
            assert!(inv::<N>(&post, InvKind::Full, &h, true, true));
            assert!(post.mult2(q, st.lookup(q).unwrap_or(0)) == st.mult(q));
        }
        kani::cover!(panicked, "hasher panicked");
        core::mem::forget(t);
    }
}

// -------------------------------------------------------------------------------- Clone panics

pub static mut CL_DROPS: [u8; K] = [0; K];
pub static mut CL_MADE: [u8; K] = [0; K];
/// clonable element: originals have gen 0 (ledger DROPS), clones gen 1 (ledger CL_*); the value
/// returned by a "panicking" clone is a ledger-neutral dummy (id 0xFF)
pub struct DC {
    pub id: u8,
    pub gen: u8,
}
impl Clone for DC {
    fn clone(&self) -> DC {
        if tick_and_maybe_fail() {
            return DC { id: 0xFF, gen: 1 };
        }
        unsafe { CL_MADE[self.id as usize % K] += 1 };
        DC { id: self.id, gen: 1 }
    }
}
impl Drop for DC {
    fn drop(&mut self) {
        if self.id == 0xFF {
            return;
        }
        unsafe {
            let i = self.id as usize % K;
            if self.gen == 0 {
                assert!(DROPS[i] == 0, "original dropped twice");
                DROPS[i] += 1;
            } else {
                assert!(CL_DROPS[i] < CL_MADE[i], "clone dropped twice");
                CL_DROPS[i] += 1;
            }
        }
    }
}
impl Elem for DC {
    fn mk(id: u8, _aux: u8) -> Self {
        DC { id, gen: 0 }
    }
    fn id(&self) -> u8 {
        self.id
    }
    fn aux(&self) -> u8 {
        self.gen
    }
}

/// clone_from(source) into a target in an arbitrary state, Clone panicking at the k-th element.
/// NT/NS: bucket counts of target and source (NS == 1: unallocated source).
pub fn clone_from_panic<const NT: usize, const NS: usize>() {
    reset_ledger();
    reset_alloc();
    unsafe {
        CL_DROPS = [0; K];
        CL_MADE = [0; K];
    }
    let mut tgt: HashTable<DC, LedgerAlloc> = HashTable::with_capacity_in(capreq(NT), LedgerAlloc);
    let st_t = fill::<DC, _, NT>(hv::raw_of_table(&mut tgt), Spec { items: SYM, deleted: SYM, kind: InvKind::Safe, h: &ZH, distinct: true, id_is_slot: false, layout: None, concrete_tags: None });
    let mut src: HashTable<DC, LedgerAlloc> = if NS == 1 { HashTable::new_in(LedgerAlloc) } else { HashTable::with_capacity_in(capreq(NS), LedgerAlloc) };
    let mut src_items = 0;
    let mut src_c = [EMPTY; NS];
    let mut src_e = [0u8; NS];
    if NS > 1 {
        let st_s = fill::<DC, _, NS>(hv::raw_of_table(&mut src), Spec { items: SYM, deleted: SYM, kind: InvKind::Safe, h: &ZH, distinct: true, id_is_slot: false, layout: None, concrete_tags: None });
        src_items = st_s.items;
        src_c = st_s.c;
        src_e = st_s.e;
    }
    arm(NS);
    let panicked = guarded(|| Clone::clone_from(hv::raw_of_table(&mut tgt), hv::raw_of_table_ref(&src)));
    let q = any_id();
    // the target's old elements: dropped exactly once (the ledger asserts "at most once")
    assert!(drops(q) == st_t.mult(q) as u8);
    let raw = hv::raw_of_table_ref(&tgt);
    if panicked {
        // valid, empty collection; every clone made so far dropped again
        assert!(tgt.len() == 0);
        let mut n = 0;
        for _ in tgt.iter() {
            n += 1;
        }
        assert!(n == 0);
        unsafe { assert!(CL_DROPS[q as usize] == CL_MADE[q as usize]) };
        assert!(tgt.find(any(), |_| true).is_none());
    } else {
        assert!(tgt.len() == src_items);
        unsafe { assert!(CL_MADE[q as usize] == if NS > 1 { let mut m = 0; let mut i = 0; while i < NS { if src_c[i] < 0x80 && src_e[i] == q { m += 1; } i += 1; } m } else { 0 }) };
        unsafe { assert!(CL_DROPS[q as usize] == 0) };
    }
    kani::cover!(panicked, "clone panicked");
    // source untouched
    assert!(src.len() == src_items);
    drop(tgt);
    unsafe { assert!(CL_DROPS[q as usize] == CL_MADE[q as usize]) };
    core::mem::forget(src);
}

// -------------------------------------------------------------------------------- Drop panics

pub struct DP {
    pub id: u8,
}
impl Drop for DP {
    fn drop(&mut self) {
        unsafe {
            let i = self.id as usize % K;
            assert!(DROPS[i] == 0, "element dropped twice");
            DROPS[i] += 1;
        }
        tick_and_maybe_fail();
    }
}
impl Clone for DP {
    fn clone(&self) -> DP {
        DP { id: self.id }
    }
}
impl Elem for DP {
    fn mk(id: u8, _aux: u8) -> Self {
        DP { id }
    }
    fn id(&self) -> u8 {
        self.id
    }
    fn aux(&self) -> u8 {
        0
    }
}

/// which: 0 clear, 1 drop of the table, 2 drain dropped after one next(), 3 into_iter dropped,
/// 4 retain(false), 5 shrink_to(0) of a table — with the destructor panicking at its k-th call.
pub fn drop_panic<const N: usize>(which: u8) {
    reset_ledger();
    reset_alloc();
    let mut t: HashTable<DP, LedgerAlloc> = HashTable::with_capacity_in(capreq(N), LedgerAlloc);
    let st = fill::<DP, _, N>(hv::raw_of_table(&mut t), Spec { items: SYM, deleted: SYM, kind: InvKind::Safe, h: &ZH, distinct: true, id_is_slot: false, layout: None, concrete_tags: None });
    arm(N);
    let q = any_id();
    if which == 0 || which == 2 || which == 4 {
        let panicked = guarded(|| {
            if which == 0 {
                t.clear();
            } else if which == 2 {
                let mut d = t.drain();
                if let Some(v) = d.next() {
                    core::mem::forget(v);
                }
            } else {
                t.retain(|_| false);
            }
        });
        // still a valid collection whose len() equals what it yields
        let raw = hv::raw_of_table_ref(&t);
        if raw.v_is_empty_singleton() {
            // a drain whose Drop unwound leaves the (moved-out) table as the unallocated singleton
            assert!(which == 2 && panicked);
            assert!(t.len() == 0 && t.iter().next().is_none());
        } else {
            let post = snap::<DP, _, N>(raw);
            assert!(inv::<N>(&post, InvKind::Safe, &ZH, false, false));
            assert!(t.len() == post.count_full());
            if which != 4 {
                assert!(t.len() == 0);
            } else if !panicked {
                assert!(t.len() == 0);
            }
            // an element still in the table has not been dropped
            if post.mult(q) > 0 {
                assert!(drops(q) == 0);
            }
        }
        kani::cover!(panicked, "destructor panicked");
        core::mem::forget(t);
    } else if which == 1 {
        let _ = guarded(|| drop(t));
        assert!(drops(q) <= st.mult(q) as u8);
    } else if which == 3 {
        let _ = guarded(|| {
            let mut it = t.into_iter();
            if let Some(v) = it.next() {
                core::mem::forget(v);
            }
        });
        assert!(drops(q) <= st.mult(q) as u8);
    } else {
        let _ = guarded(|| t.shrink_to(0, |_| 0));
        core::mem::forget(t);
    }
}

/// Destructor panic while `clone_from` from an unallocated source disposes of the old contents:
/// the collection is left valid (empty), nothing is dropped twice; leaks are allowed.
/// (`via_clone_from == false` is unused: `shrink_to(0)` only disposes of an empty table.)
pub fn drop_panic_dispose<const N: usize>(via_clone_from: bool) {
    reset_ledger();
    reset_alloc();
    let mut t: HashTable<DP, LedgerAlloc> = HashTable::with_capacity_in(capreq(N), LedgerAlloc);
    let st = fill::<DP, _, N>(hv::raw_of_table(&mut t), Spec { items: SYM, deleted: SYM, kind: InvKind::Safe, h: &ZH, distinct: true, id_is_slot: false, layout: None, concrete_tags: None });
    let src: HashTable<DP, LedgerAlloc> = HashTable::new_in(LedgerAlloc);
    arm(N);
    let panicked = guarded(|| {
        if via_clone_from {
            Clone::clone_from(hv::raw_of_table(&mut t), hv::raw_of_table_ref(&src));
        } else {
            t.shrink_to(0, |_| 0);
        }
    });
    let q = any_id();
    let raw = hv::raw_of_table_ref(&t);
    // whatever happened, the collection is valid and holds nothing that was already dropped
    if raw.v_is_empty_singleton() {
        assert!(t.len() == 0 && t.iter().next().is_none());
    } else {
        assert!(buckets_of(raw) == N);
        let post = snap::<DP, _, N>(raw);
        assert!(inv::<N>(&post, InvKind::Safe, &ZH, false, false));
        assert!(t.len() == post.count_full());
        if post.mult(q) > 0 {
            assert!(drops(q) == 0);
        }
    }
    if !panicked {
        assert!(t.len() == 0 && drops(q) == st.mult(q) as u8);
        unsafe { assert!(A_LIVE == 0) };
    }
    assert!(drops(q) <= st.mult(q) as u8);
    kani::cover!(panicked, "destructor panicked");
    core::mem::forget(t);
}

// ---------------------------------------------------------------- (a) callback-time validity

fn table_valid_now<T: Elem, A: allocator_api2::alloc::Allocator, const N: usize>(raw: *const RawTable<T, A>) -> St<N> {
    let raw = unsafe { &*raw };
    let s = snap::<T, A, N>(raw);
    assert!(inv::<N>(&s, InvKind::Safe, &ZH, false, false));
    s
}

/// retain / extract_if predicate: at every invocation the table is a valid collection in which
/// the element being examined is still present (a panic right there leaves exactly that state).
pub fn predicate_time_validity<const N: usize>(extract: bool) {
    reset_ledger();
    let mut t: HashTable<D> = HashTable::with_capacity(capreq(N));
    let st = fill::<D, _, N>(hv::raw_of_table(&mut t), Spec { items: SYM, deleted: SYM, kind: InvKind::Safe, h: &ZH, distinct: true, id_is_slot: false, layout: None, concrete_tags: None });
    let rawp = hv::raw_of_table(&mut t) as *const RawTable<D, _>;
    let p: [bool; K] = any();
    let mut removed = [false; K];
    let pred = |v: &mut D| {
        let s = table_valid_now::<D, _, N>(rawp);
        assert!(s.mult(v.id) == 1); // the element under examination is still owned by the table
        assert!(drops(v.id) == 0);
        p[v.id as usize]
    };
    if extract {
        for v in t.extract_if(pred) {
            removed[v.id as usize] = true;
            core::mem::forget(v);
        }
    } else {
        t.retain(pred);
    }
    core::mem::forget(t);
}

/// HashMap::entry(..).and_replace_entry_with / OccupiedEntry::replace_entry_with: when the closure
/// runs, the entry has been taken out of the map (so a panic in the closure drops it exactly once
/// as the closure's argument) and the map is valid without it.
pub fn replace_entry_with_validity<const N: usize>() {
    reset_ledger();
    type M = HashMap<Key, D, TabHasher>;
    let h: [u64; K] = any();
    let mut m: M = HashMap::with_capacity_and_hasher(capreq(N), TabHasher { h });
    // elements are (Key, D): build through the element constructor below
    let st = fill::<(Key, D), _, N>(hv::raw_of_map(&mut m), Spec { items: SYM, deleted: SYM, kind: InvKind::Full, h: &h, distinct: true, id_is_slot: false, layout: None, concrete_tags: None });
    let rawp = hv::raw_of_map(&mut m) as *const RawTable<(Key, D), _>;
    let k = any_id();
    let keep: bool = any();
    let present = st.mult(k) == 1;
    let e = m.entry(Key { id: k, payload: 0 }).and_replace_entry_with(|key, v| {
        let s = table_valid_now::<(Key, D), _, N>(rawp);
        assert!(key.id == k && v.id == k);
        assert!(s.mult(k) == 0); // not owned by the map while the closure holds it
        assert!(s.items == st.items - 1);
        assert!(drops(k) == 0);
        if keep { Some(v) } else { None }
    });
    drop(e);
    let post = snap::<(Key, D), _, N>(hv::raw_of_map_ref(&m));
    assert!(inv::<N>(&post, InvKind::Full, &h, true, false));
    let q = any_id();
    assert!(post.mult(q) == if q == k && present && !keep { 0 } else { st.mult(q) });
    assert!(drops(q) == if q == k && present && !keep { 1 } else { 0 });
    kani::cover!(present && keep, "kept");
    kani::cover!(present && !keep, "removed");
    core::mem::forget(m);
}
impl Elem for (Key, D) {
    fn mk(id: u8, aux: u8) -> Self {
        (Key { id, payload: aux }, D { id, aux })
    }
    fn id(&self) -> u8 {
        self.0.id
    }
    fn aux(&self) -> u8 {
        self.1.aux
    }
}
