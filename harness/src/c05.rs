//! C05 — broken Hash/Eq: every hasher call and every eq call returns a fresh arbitrary answer.
//! Claims checked: no failed safety check (CBMC), every probe loop terminates within the
//! code-derived unwind bounds, Inv_safe afterwards, len() == number of FULL slots, drop ledger exact.
use crate::sym::*;
use hashbrown::verif as hv;
use hashbrown::HashTable;

type TD = HashTable<D>;
static ZH: [u64; K] = [0; K];

fn mk<const N: usize>(items: usize, deleted: usize) -> (TD, St<N>) {
    reset_ledger();
    let mut t: TD = HashTable::with_capacity(capreq(N));
    let st = fill::<D, _, N>(
        hv::raw_of_table(&mut t),
        Spec { items, deleted, kind: InvKind::Safe, h: &ZH, distinct: true, id_is_slot: false, layout: None, concrete_tags: None },
    );
    (t, st)
}

fn post_safe<const M: usize>(t: &TD) -> St<M> {
    let raw = hv::raw_of_table_ref(t);
    assert!(buckets_of(raw) == M);
    let post = snap::<D, _, M>(raw);
    assert!(inv::<M>(&post, InvKind::Safe, &ZH, false, false));
    assert!(t.len() == post.count_full());
    post
}

/// op: 0 find, 1 find_entry+remove, 2 insert_unique (N2 = expected size), 3 entry (insert if
/// vacant / remove if occupied), 4 retain with chaotic predicate, 5 iter_hash walk, 6 reserve
pub fn chaos<const N: usize, const N2: usize>(items: usize, deleted: usize, op: u8, arg: usize) {
    let (mut t, st) = mk::<N>(items, deleted);
    let mut held = [0u8; K];
    let mut inserted = [0u8; K];
    let nk = any_id();
    if op == 0 {
        let r = t.find(any(), |_| any());
        if let Some(v) = r {
            assert!(st.mult(v.id) == 1); // whatever it returns is a live element
        }
    } else if op == 1 {
        if let Ok(o) = t.find_entry(any(), |_| any()) {
            let (v, _) = o.remove();
            assert!(st.mult(v.id) == 1 && drops(v.id) == 0);
            let (id, _) = take(v);
            held[id as usize] += 1;
        }
    } else if op == 2 {
        assume(st.mult(nk) == 0);
        t.insert_unique(any(), D { id: nk, aux: 0 }, |_| any());
        inserted[nk as usize] = 1;
    } else if op == 3 {
        assume(st.mult(nk) == 0);
        match t.entry(any(), |_| any(), |_| any()) {
            hashbrown::hash_table::Entry::Occupied(o) => {
                let (v, _) = o.remove();
                let (id, _) = take(v);
                held[id as usize] += 1;
            }
            hashbrown::hash_table::Entry::Vacant(v) => {
                v.insert(D { id: nk, aux: 0 });
                inserted[nk as usize] = 1;
            }
        }
    } else if op == 4 {
        t.retain(|_| any());
    } else if op == 5 {
        let mut n = 0;
        for v in t.iter_hash(any()) {
            assert!(st.mult(v.id) == 1);
            n += 1;
        }
        assert!(n <= items);
    } else {
        t.reserve(arg, |_| any());
        assert!(t.capacity() >= t.len() + arg);
    }
    let b = buckets_of(hv::raw_of_table_ref(&t));
    if b == N {
        let post = post_safe::<N>(&t);
        let q = any_id();
        // nothing lost, nothing duplicated
        assert!(post.mult(q) as u8 + held[q as usize] + drops(q) == st.mult(q) as u8 + inserted[q as usize]);
    } else {
        let post = post_safe::<N2>(&t);
        let q = any_id();
        assert!(post.mult(q) as u8 + held[q as usize] + drops(q) == st.mult(q) as u8 + inserted[q as usize]);
    }
    // iteration yields len() elements
    let mut n = 0;
    for _ in t.iter() {
        n += 1;
    }
    assert!(n == t.len());
    drop(t);
    let q = any_id();
    assert!(drops(q) + held[q as usize] == st.mult(q) as u8 + inserted[q as usize]);
}
