//! C09 — iterators: every stored element exactly once, exact size_hint/len at every step,
//! fold == repeated next, clone continues independently, fused, Default is empty.
//! Pre-state: Inv_safe with symbolic occupancy (incl. tombstones), element id == slot index.
use crate::sym::*;
use hashbrown::verif as hv;
use hashbrown::{HashMap, HashSet, HashTable};

type T = u32;
static ZH: [u64; K] = [0; K];

fn mk<const N: usize>() -> (HashTable<T>, St<N>) {
    let mut t: HashTable<T> = HashTable::with_capacity(capreq(N));
    let st = fill::<T, _, N>(
        hv::raw_of_table(&mut t),
        Spec { items: SYM, deleted: SYM, kind: InvKind::Safe, h: &ZH, distinct: false, id_is_slot: true, layout: None, concrete_tags: None },
    );
    (t, st)
}

/// iter(): next() x cut, then (mode 0) next to exhaustion, (1) fold, (2) clone and drive both.
pub fn table_iter<const N: usize>(mode: u8) {
    let (t, st) = mk::<N>();
    let items = st.items;
    let mut seen = [false; N];
    let mut it = t.iter();
    let cut: usize = any();
    assume(cut <= items);
    let mut r = items;
    let mut j = 0;
    while j < N {
        if j >= cut {
            break;
        }
        assert!(it.size_hint() == (r, Some(r)));
        assert!(it.len() == r);
        let v = it.next().unwrap();
        let idx = v.id() as usize;
        assert!(idx < N && st.c[idx] < 0x80 && !seen[idx]);
        assert!(v.aux() == st.x[idx]);
        seen[idx] = true;
        r -= 1;
        j += 1;
    }
    if mode == 0 {
        let mut j2 = 0;
        while j2 < N {
            match it.next() {
                None => break,
                Some(v) => {
                    let idx = v.id() as usize;
                    assert!(idx < N && st.c[idx] < 0x80 && !seen[idx]);
                    seen[idx] = true;
                    r -= 1;
                }
            }
            j2 += 1;
        }
        assert!(r == 0);
        assert!(it.next().is_none());
        assert!(it.next().is_none());
        assert!(it.size_hint() == (0, Some(0)));
    } else if mode == 1 {
        let n_fold = it.fold(0usize, |acc, v| {
            let idx = v.id() as usize;
            assert!(idx < N && st.c[idx] < 0x80 && !seen[idx]);
            seen[idx] = true;
            acc + 1
        });
        assert!(n_fold == r);
    } else {
        let mut it2 = it.clone();
        assert!(it2.len() == r);
        // the clone continues from the same position, independently
        let a = it.next().map(|v| v.id());
        let b = it2.next().map(|v| v.id());
        assert!(a == b);
        assert!(a.is_some() == (r > 0));
        let c = it.next().map(|v| v.id());
        let d = it2.next().map(|v| v.id());
        assert!(c == d);
        if let Some(i) = a {
            assert!(!seen[i as usize] && st.c[i as usize] < 0x80);
            if let Some(k) = c {
                assert!(k != i && !seen[k as usize] && st.c[k as usize] < 0x80);
            }
        }
        assert!(it.len() == it2.len());
        core::mem::forget(t);
        return;
    }
    // every stored element was yielded
    let mut i = 0;
    while i < N {
        assert!(seen[i] == (st.c[i] < 0x80));
        i += 1;
    }
    kani::cover!(items >= 2 && cut == 1, "switch after one element");
    kani::cover!(st.c[N - 1] < 0x80 && st.c[0] < 0x80, "first and last bucket occupied");
    core::mem::forget(t);
}

/// iter_mut(): yields each element once, writes persist.
pub fn table_iter_mut<const N: usize>() {
    let (mut t, st) = mk::<N>();
    let mut seen = [false; N];
    let mut n = 0;
    let mut it = t.iter_mut();
    assert!(it.len() == st.items);
    let mut j = 0;
    while j < N {
        match it.next() {
            None => break,
            Some(v) => {
                let idx = v.id() as usize;
                assert!(idx < N && st.c[idx] < 0x80 && !seen[idx]);
                seen[idx] = true;
                *v = T::mk(idx as u8, 0xA5);
                n += 1;
            }
        }
        j += 1;
    }
    assert!(it.next().is_none());
    assert!(n == st.items);
    let post = snap::<T, _, N>(hv::raw_of_table_ref(&t));
    let mut i = 0;
    while i < N {
        assert!(post.c[i] == st.c[i]);
        if st.c[i] < 0x80 {
            assert!(post.e[i] == i as u8 && post.x[i] == 0xA5);
        }
        i += 1;
    }
    core::mem::forget(t);
}

/// into_iter(): owning iterator, cut after a symbolic number of items, rest dropped.
pub fn table_into_iter<const N: usize>() {
    let (t, st) = mk::<N>();
    let items = st.items;
    let mut seen = [false; N];
    let mut it = t.into_iter();
    let cut: usize = any();
    assume(cut <= items);
    let mut r = items;
    let mut j = 0;
    while j < N {
        if j >= cut {
            break;
        }
        assert!(it.size_hint() == (r, Some(r)));
        let v = it.next().unwrap();
        let idx = v.id() as usize;
        assert!(idx < N && st.c[idx] < 0x80 && !seen[idx]);
        seen[idx] = true;
        r -= 1;
        j += 1;
    }
    assert!(it.len() == r);
    if r == 0 {
        assert!(it.next().is_none());
        assert!(it.next().is_none());
    }
    drop(it); // frees the block (checked by CBMC's deallocation checks)
}

/// drain(): yields each element once; afterwards the table is empty and keeps its allocation.
pub fn table_drain<const N: usize>() {
    let (mut t, st) = mk::<N>();
    let items = st.items;
    let p0 = hv::raw_of_table_ref(&t).v_ctrl_ptr();
    let mut seen = [false; N];
    {
        let mut it = t.drain();
        let cut: usize = any();
        assume(cut <= items);
        let mut r = items;
        let mut j = 0;
        while j < N {
            if j >= cut {
                break;
            }
            assert!(it.size_hint() == (r, Some(r)));
            assert!(it.len() == r);
            let v = it.next().unwrap();
            let idx = v.id() as usize;
            assert!(idx < N && st.c[idx] < 0x80 && !seen[idx]);
            seen[idx] = true;
            r -= 1;
            j += 1;
        }
        if r == 0 {
            assert!(it.next().is_none());
        }
    }
    assert!(t.len() == 0);
    let raw = hv::raw_of_table_ref(&t);
    assert!(raw.v_ctrl_ptr() == p0);
    let post = snap::<T, _, N>(raw);
    assert!(inv::<N>(&post, InvKind::Safe, &ZH, false, true));
    assert!(post.count(EMPTY) == N);
    assert!(t.capacity() == real_capacity(N));
    // still usable
    t.insert_unique(any(), 7, |_| 0);
    assert!(t.len() == 1);
    core::mem::forget(t);
}

/// Default-constructed iterators are empty; iterators of the unallocated table are empty.
pub fn defaults_empty() {
    let mut a: hashbrown::hash_table::Iter<'_, T> = Default::default();
    assert!(a.next().is_none() && a.len() == 0);
    let mut b: hashbrown::hash_table::IterMut<'_, T> = Default::default();
    assert!(b.next().is_none() && b.len() == 0);
    let mut c: hashbrown::hash_table::IntoIter<T> = Default::default();
    assert!(c.next().is_none() && c.len() == 0);
    let mut d: hashbrown::hash_table::IterHash<'_, T> = Default::default();
    assert!(d.next().is_none());
    let mut e: hashbrown::hash_map::Iter<'_, u8, u8> = Default::default();
    assert!(e.next().is_none() && e.len() == 0);
    let mut f: hashbrown::hash_map::Keys<'_, u8, u8> = Default::default();
    assert!(f.next().is_none());
    let mut g: hashbrown::hash_map::Values<'_, u8, u8> = Default::default();
    assert!(g.next().is_none());
    let mut i: hashbrown::hash_map::IntoIter<u8, u8> = Default::default();
    assert!(i.next().is_none() && i.len() == 0);
    let mut k: hashbrown::hash_map::IntoKeys<u8, u8> = Default::default();
    assert!(k.next().is_none());
    let mut l: hashbrown::hash_map::IntoValues<u8, u8> = Default::default();
    assert!(l.next().is_none());
    let mut m: hashbrown::hash_set::Iter<'_, u8> = Default::default();
    assert!(m.next().is_none());
    let mut n: hashbrown::hash_set::IntoIter<u8> = Default::default();
    assert!(n.next().is_none());
    let t: HashTable<T> = HashTable::new();
    assert!(t.iter().next().is_none());
    assert!(t.iter().fold(0, |a, _| a + 1) == 0);
    let mut t2: HashTable<T> = HashTable::new();
    assert!(t2.drain().next().is_none());
    assert!(t2.into_iter().next().is_none());
}

// ---------------------------------------------------------------- HashMap / HashSet wrappers

type M = HashMap<Key, u8, TabHasher>;
fn mk_map<const N: usize>() -> (M, St<N>) {
    let mut m: M = HashMap::with_capacity_and_hasher(capreq(N), TabHasher { h: ZH });
    let st = fill::<(Key, u8), _, N>(
        hv::raw_of_map(&mut m),
        Spec { items: SYM, deleted: SYM, kind: InvKind::Safe, h: &ZH, distinct: false, id_is_slot: true, layout: None, concrete_tags: None },
    );
    (m, st)
}

/// which: 0 iter, 1 keys, 2 values, 3 iter_mut, 4 values_mut, 5 into_iter, 6 into_keys,
/// 7 into_values, 8 drain. Drives next() to a symbolic cut with size_hint checks, folds the rest.
pub fn map_iters<const N: usize>(which: u8) {
    let (mut m, st) = mk_map::<N>();
    let items = st.items;
    let cut: usize = any();
    assume(cut <= items);
    let mut seen = [false; N];
    // key id == slot index; value == x[slot]; keys carry payload x ^ 0x5A
    macro_rules! drive {
        ($it:expr, $slot:expr) => {{
            let mut it = $it;
            let mut r = items;
            let mut j = 0;
            while j < N {
                if j >= cut {
                    break;
                }
                assert!(it.size_hint() == (r, Some(r)));
                assert!(it.len() == r);
                let v = it.next().unwrap();
                let idx: usize = $slot(v);
                assert!(idx < N && st.c[idx] < 0x80 && !seen[idx]);
                seen[idx] = true;
                r -= 1;
                j += 1;
            }
            let nf = it.fold(0usize, |acc, v| {
                let idx: usize = $slot(v);
                assert!(idx < N && st.c[idx] < 0x80 && !seen[idx]);
                seen[idx] = true;
                acc + 1
            });
            assert!(nf == r);
        }};
    }
    // values are not unique: map a value back to its slot by searching an unseen slot with that value
    let x = st.x;
    let c = st.c;
    if which == 0 {
        drive!(m.iter(), |(k, v): (&Key, &u8)| { assert!(*v == x[k.id as usize]); k.id as usize });
    } else if which == 1 {
        drive!(m.keys(), |k: &Key| k.id as usize);
    } else if which == 3 {
        drive!(m.iter_mut(), |(k, v): (&Key, &mut u8)| { assert!(*v == x[k.id as usize]); k.id as usize });
    } else if which == 5 {
        drive!(m.into_iter(), |(k, v): (Key, u8)| { assert!(v == x[k.id as usize]); k.id as usize });
        return;
    } else if which == 6 {
        drive!(m.into_keys(), |k: Key| k.id as usize);
        return;
    } else if which == 8 {
        drive!(m.drain(), |(k, v): (Key, u8)| { assert!(v == x[k.id as usize]); k.id as usize });
        assert!(m.len() == 0);
    } else {
        // values / values_mut / into_values: count only, and every value must be a stored one
        let mut n = 0usize;
        let mut sum = 0usize;
        if which == 2 {
            let it = m.values();
            assert!(it.len() == items);
            for v in it { n += 1; sum += *v as usize; }
        } else if which == 4 {
            let it = m.values_mut();
            assert!(it.len() == items);
            for v in it { n += 1; sum += *v as usize; }
        } else {
            let it = m.into_values();
            assert!(it.len() == items);
            for v in it { n += 1; sum += v as usize; }
            let mut want = 0usize;
            let mut i = 0;
            while i < N { if c[i] < 0x80 { want += x[i] as usize; } i += 1; }
            assert!(n == items && sum == want);
            return;
        }
        let mut want = 0usize;
        let mut i = 0;
        while i < N { if c[i] < 0x80 { want += x[i] as usize; } i += 1; }
        assert!(n == items && sum == want);
        core::mem::forget(m);
        return;
    }
    let mut i = 0;
    while i < N {
        assert!(seen[i] == (st.c[i] < 0x80));
        i += 1;
    }
    core::mem::forget(m);
}

type S = HashSet<Key, TabHasher>;
/// HashSet iter / into_iter / drain forward to the map iterators.
pub fn set_iters<const N: usize>(which: u8) {
    let mut s: S = HashSet::with_capacity_and_hasher(capreq(N), TabHasher { h: ZH });
    let st = fill::<(Key, ()), _, N>(
        hv::raw_of_set(&mut s),
        Spec { items: SYM, deleted: SYM, kind: InvKind::Safe, h: &ZH, distinct: false, id_is_slot: true, layout: None, concrete_tags: None },
    );
    let items = st.items;
    let mut seen = [false; N];
    let mut n = 0;
    if which == 0 {
        let it = s.iter();
        assert!(it.len() == items && it.size_hint() == (items, Some(items)));
        for k in it {
            let idx = k.id as usize;
            assert!(idx < N && st.c[idx] < 0x80 && !seen[idx]);
            seen[idx] = true;
            n += 1;
        }
        core::mem::forget(s);
    } else if which == 1 {
        let it = s.into_iter();
        assert!(it.len() == items);
        for k in it {
            let idx = k.id as usize;
            assert!(idx < N && st.c[idx] < 0x80 && !seen[idx]);
            seen[idx] = true;
            n += 1;
        }
    } else {
        {
            let it = s.drain();
            assert!(it.len() == items);
            for k in it {
                let idx = k.id as usize;
                assert!(idx < N && st.c[idx] < 0x80 && !seen[idx]);
                seen[idx] = true;
                n += 1;
            }
        }
        assert!(s.len() == 0);
        core::mem::forget(s);
    }
    assert!(n == items);
}
