//! C10 — retain / extract_if / drain remove exactly the selected elements.
//! Predicate = arbitrary truth table over element ids, with call counters.
use crate::sym::*;
use hashbrown::verif as hv;
use hashbrown::{HashMap, HashSet, HashTable};

type T = u32;
/// next() calls made on an extract_if before it is dropped (symbolic cut <= STEPS)
const STEPS: usize = 3;

fn mk<const N: usize>(h: &[u64; K]) -> (HashTable<T>, St<N>) {
    crate::c06::mk_table::<N>(SYM, SYM, h, InvKind::Full)
}

/// HashTable::retain: predicate called once per stored element, keeps exactly the true ones,
/// writes through &mut persist, probe chains stay intact (Inv on the post-state).
pub fn table_retain<const N: usize>() {
    let h: [u64; K] = any();
    let (mut t, st) = mk::<N>(&h);
    let p: [bool; K] = any();
    let mut calls = [0u8; K];
    t.retain(|v| {
        let id = v.id();
        calls[id as usize] += 1;
        *v = T::mk(id, v.aux().wrapping_add(3));
        p[id as usize]
    });
    let post = snap::<T, _, N>(hv::raw_of_table_ref(&t));
    assert!(inv::<N>(&post, InvKind::Full, &h, false, false));
    let q = any_id();
    let qa: u8 = any();
    assert!(calls[q as usize] as usize == st.mult(q));
    let expect = if p[q as usize] { st.mult2(q, qa.wrapping_sub(3)) } else { 0 };
    assert!(post.mult2(q, qa) == expect);
    assert!(t.len() == post.count_full());
    // what was kept is still findable
    if post.mult(q) > 0 {
        assert!(t.find(h[q as usize], |v| v.id() == q).is_some());
    }
    kani::cover!(post.count(DELETED) > st.count(DELETED), "retain left a tombstone");
    kani::cover!(st.items >= 2 && t.len() == 1, "removed all but one");
    core::mem::forget(t);
}

/// HashTable::extract_if driven for a symbolic number of steps, then dropped.
pub fn table_extract_if<const N: usize>() {
    let h: [u64; K] = any();
    let (mut t, st) = mk::<N>(&h);
    let p: [bool; K] = any();
    let mut calls = [0u8; K];
    let mut yielded = [0u8; K];
    let cut: usize = any();
    assume(cut <= STEPS);
    let mut exhausted = false;
    {
        let mut it = t.extract_if(|v| {
            calls[v.id() as usize] += 1;
            p[v.id() as usize]
        });
        let mut j = 0;
        while j < STEPS {
            if j >= cut {
                break;
            }
            match it.next() {
                Some(v) => {
                    assert!(p[v.id() as usize]); // only selected elements come out
                    yielded[v.id() as usize] += 1;
                }
                None => {
                    exhausted = true;
                    break;
                }
            }
            j += 1;
        }
        if exhausted {
            assert!(it.next().is_none());
        }
    }
    let post = snap::<T, _, N>(hv::raw_of_table_ref(&t));
    assert!(inv::<N>(&post, InvKind::Full, &h, false, false));
    let q = any_id();
    // every visited selected element was yielded (and removed); nothing else left the table
    assert!(yielded[q as usize] == if p[q as usize] { calls[q as usize] } else { 0 });
    assert!(post.mult(q) + yielded[q as usize] as usize == st.mult(q));
    assert!(calls[q as usize] as usize <= st.mult(q));
    if exhausted {
        assert!(calls[q as usize] as usize == st.mult(q));
    }
    assert!(t.len() == post.count_full());
    if post.mult(q) > 0 {
        assert!(t.find(h[q as usize], |v| v.id() == q).is_some());
    }
    kani::cover!(exhausted && st.items >= 2, "ran to exhaustion");
    kani::cover!(!exhausted && cut >= 1, "dropped early");
    core::mem::forget(t);
}

// ------------------------------------------------------------- map / set forwarders
type M = crate::c01::M;

pub fn map_extract_if<const N: usize>() {
    let h: [u64; K] = any();
    let (mut m, st) = crate::c01::mk_map::<N>(SYM, SYM, &h);
    let p: [bool; K] = any();
    let mut yielded = [0u8; K];
    let mut calls = [0u8; K];
    let cut: usize = any();
    assume(cut <= STEPS);
    let mut exhausted = false;
    {
        let mut it = m.extract_if(|k, _v| {
            calls[k.id as usize] += 1;
            p[k.id as usize]
        });
        let mut j = 0;
        while j < STEPS {
            if j >= cut {
                break;
            }
            match it.next() {
                Some((k, v)) => {
                    assert!(p[k.id as usize]);
                    assert!(st.lookup(k.id) == Some(v));
                    yielded[k.id as usize] += 1;
                }
                None => {
                    exhausted = true;
                    break;
                }
            }
            j += 1;
        }
    }
    let q = any_id();
    let got = crate::c01::post_lookup::<N, N>(&m, &h, q, false);
    assert!(yielded[q as usize] <= 1 && calls[q as usize] <= 1);
    assert!(yielded[q as usize] == if p[q as usize] { calls[q as usize] } else { 0 });
    assert!(got == if yielded[q as usize] == 1 { None } else { st.lookup(q) });
    if exhausted {
        assert!(calls[q as usize] == st.lookup(q).is_some() as u8);
    }
    core::mem::forget(m);
}

type S = HashSet<Key, TabHasher>;
fn mk_set<const N: usize>(h: &[u64; K]) -> (S, St<N>) {
    let mut s: S = HashSet::with_capacity_and_hasher(capreq(N), TabHasher { h: *h });
    let st = fill::<(Key, ()), _, N>(
        hv::raw_of_set(&mut s),
        Spec { items: SYM, deleted: SYM, kind: InvKind::Full, h, distinct: true, id_is_slot: false, layout: None, concrete_tags: None },
    );
    (s, st)
}

/// HashSet retain (which 0), extract_if to exhaustion (1), drain cut short (2)
pub fn set_ops<const N: usize>(which: u8) {
    let h: [u64; K] = any();
    let (mut s, st) = mk_set::<N>(&h);
    let p: [bool; K] = any();
    let q = any_id();
    let was = st.mult(q) > 0;
    if which == 0 {
        s.retain(|k| p[k.id as usize]);
        assert!(s.contains(&Key { id: q, payload: 0 }) == (was && p[q as usize]));
    } else if which == 1 {
        let mut out = [false; K];
        for k in s.extract_if(|k| p[k.id as usize]) {
            assert!(!out[k.id as usize]);
            out[k.id as usize] = true;
        }
        assert!(out[q as usize] == (was && p[q as usize]));
        assert!(s.contains(&Key { id: q, payload: 0 }) == (was && !p[q as usize]));
    } else {
        let p0 = hv::raw_of_set_ref(&s).v_ctrl_ptr();
        {
            let mut d = s.drain();
            let first = d.next();
            assert!(first.is_some() == (st.items > 0));
        }
        assert!(s.len() == 0 && !s.contains(&Key { id: q, payload: 0 }));
        assert!(hv::raw_of_set_ref(&s).v_ctrl_ptr() == p0);
        assert!(s.capacity() == real_capacity(N));
        assert!(s.insert(Key { id: q, payload: 1 }));
        assert!(s.len() == 1);
    }
    let post = snap::<(Key, ()), _, N>(hv::raw_of_set_ref(&s));
    assert!(inv::<N>(&post, InvKind::Full, &h, true, false));
    assert!(s.len() == post.count_full());
    core::mem::forget(s);
}
