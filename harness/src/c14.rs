//! C14 — entry-style APIs agree with plain lookup/insert/remove, also at full load.
//! (HashMap::entry / entry_ref forms live in c01::entry; HashSet::entry in c07::elem_ops.)
use crate::c01::{mk_map, post_lookup, M};
use crate::sym::*;
use hashbrown::hash_map::{Entry, RawEntryMut, RustcEntry};
use hashbrown::verif as hv;
use hashbrown::HashMap;

fn grew<const N: usize>(m: &M) -> bool {
    buckets_of(hv::raw_of_map_ref(m)) != N
}

/// raw_entry() (read-only builders): from_key / from_key_hashed_nocheck / from_hash
pub fn raw_entry_ro<const N: usize>() {
    let h: [u64; K] = any();
    let (m, st) = mk_map::<N>(SYM, SYM, &h);
    let k = any_id();
    let want = st.lookup(k);
    let key = Key { id: k, payload: 7 };
    assert!(m.raw_entry().from_key(&key).map(|(_, v)| *v) == want);
    assert!(m.raw_entry().from_key_hashed_nocheck(h[k as usize], &key).map(|(_, v)| *v) == want);
    assert!(m.raw_entry().from_hash(h[k as usize], |q| q.id == k).map(|(sk, v)| (sk.id, *v)) == want.map(|v| (k, v)));
    assert!(m.get(&key).copied() == want);
    core::mem::forget(m);
}

/// raw_entry_mut(): form 0 from_key+or_insert, 1 from_key_hashed_nocheck + insert (Vacant) /
/// insert (Occupied value), 2 from_hash + insert_hashed_nocheck, 3 insert_with_hasher,
/// 4 Occupied: remove_entry, 5 Occupied: insert_key, 6 and_replace_entry_with(keep / drop),
/// 7 Vacant dropped unused
pub fn raw_entry_mut<const N: usize, const N2: usize>(items: usize, deleted: usize, form: u8) {
    let h: [u64; K] = any();
    let (mut m, st) = mk_map::<N>(items, deleted, &h);
    let k = any_id();
    let v: u8 = any();
    let old = st.lookup(k);
    let key = Key { id: k, payload: 0xEE };
    let hk = h[k as usize];
    let mut expect = old;
    let keep: bool = any();
    if form == 0 {
        let (rk, rv) = m.raw_entry_mut().from_key(&key).or_insert(key, v);
        assert!(rk.id == k && *rv == old.unwrap_or(v));
        expect = Some(old.unwrap_or(v));
    } else if form == 1 {
        match m.raw_entry_mut().from_key_hashed_nocheck(hk, &key) {
            RawEntryMut::Occupied(mut o) => {
                assert!(old == Some(*o.get()));
                assert!(o.insert(v) == old.unwrap());
            }
            RawEntryMut::Vacant(vac) => {
                assert!(old.is_none());
                let (rk, rv) = vac.insert(key, v);
                assert!(rk.id == k && *rv == v);
            }
        }
        expect = Some(v);
    } else if form == 2 {
        match m.raw_entry_mut().from_hash(hk, |q| q.id == k) {
            RawEntryMut::Occupied(o) => {
                assert!(old == Some(*o.get()));
            }
            RawEntryMut::Vacant(vac) => {
                assert!(old.is_none());
                vac.insert_hashed_nocheck(hk, key, v);
                expect = Some(v);
            }
        }
    } else if form == 3 {
        match m.raw_entry_mut().from_key(&key) {
            RawEntryMut::Occupied(o) => {
                assert!(old == Some(*o.get()));
            }
            RawEntryMut::Vacant(vac) => {
                assert!(old.is_none());
                vac.insert_with_hasher(hk, key, v, |q| h[q.id as usize]);
                expect = Some(v);
            }
        }
    } else if form == 4 {
        match m.raw_entry_mut().from_key(&key) {
            RawEntryMut::Occupied(o) => {
                let (rk, rv) = o.remove_entry();
                assert!(rk.id == k && Some(rv) == old);
                expect = None;
            }
            RawEntryMut::Vacant(_) => assert!(old.is_none()),
        }
    } else if form == 5 {
        if let RawEntryMut::Occupied(mut o) = m.raw_entry_mut().from_key(&key) {
            let prev = o.insert_key(Key { id: k, payload: 0x77 });
            assert!(prev.id == k && prev.payload == old.unwrap() ^ 0x5A);
            assert!(o.key().payload == 0x77);
        }
    } else if form == 6 {
        let e = m.raw_entry_mut().from_key(&key).and_replace_entry_with(|kk, vv| {
            assert!(kk.id == k && Some(vv) == old);
            if keep { Some(v) } else { None }
        });
        match e {
            RawEntryMut::Occupied(o) => assert!(old.is_some() && keep && *o.get() == v),
            RawEntryMut::Vacant(_) => assert!(old.is_none() || !keep),
        }
        if old.is_some() {
            expect = if keep { Some(v) } else { None };
        }
    } else {
        match m.raw_entry_mut().from_key(&key) {
            RawEntryMut::Vacant(vac) => {
                assert!(old.is_none());
                drop(vac);
            }
            RawEntryMut::Occupied(_) => assert!(old.is_some()),
        }
    }
    let q = any_id();
    let g = grew::<N>(&m);
    let want = if q == k { expect } else { st.lookup(q) };
    assert!(post_lookup::<N, N2>(&m, &h, q, g) == want);
    assert!(m.get(&Key { id: q, payload: 0 }).copied() == want);
    let dl = (expect.is_some() as isize) - (old.is_some() as isize);
    assert!(m.len() as isize == items as isize + dl);
    kani::cover!(old.is_some(), "occupied");
    kani::cover!(old.is_none(), "vacant");
    core::mem::forget(m);
}

/// rustc_entry (the path std's HashMap::entry uses): reserves at creation, inserts without growing.
/// form 0 or_insert, 1 Vacant::insert / Occupied::insert, 2 Occupied::remove, 3 dropped unused,
/// 4 insert_entry, 5 and_modify + or_default
pub fn rustc_entry<const N: usize, const N2: usize>(items: usize, deleted: usize, form: u8) {
    let h: [u64; K] = any();
    let (mut m, st) = mk_map::<N>(items, deleted, &h);
    let k = any_id();
    let v: u8 = any();
    let old = st.lookup(k);
    let key = Key { id: k, payload: 0xEE };
    let mut expect = old;
    if form == 0 {
        let r = m.rustc_entry(key).or_insert(v);
        assert!(*r == old.unwrap_or(v));
        expect = Some(old.unwrap_or(v));
    } else if form == 1 {
        match m.rustc_entry(key) {
            RustcEntry::Occupied(mut o) => {
                assert!(old == Some(*o.get()) && o.key().id == k);
                assert!(Some(o.insert(v)) == old);
            }
            RustcEntry::Vacant(vac) => {
                assert!(old.is_none() && vac.key().id == k);
                assert!(*vac.insert(v) == v);
            }
        }
        expect = Some(v);
    } else if form == 2 {
        match m.rustc_entry(key) {
            RustcEntry::Occupied(o) => {
                assert!(Some(o.remove()) == old);
                expect = None;
            }
            RustcEntry::Vacant(_) => assert!(old.is_none()),
        }
    } else if form == 3 {
        match m.rustc_entry(key) {
            RustcEntry::Occupied(_) => assert!(old.is_some()),
            RustcEntry::Vacant(vac) => {
                assert!(old.is_none());
                let back = vac.into_key();
                assert!(back.id == k);
            }
        }
    } else if form == 4 {
        match m.rustc_entry(key) {
            RustcEntry::Occupied(o) => assert!(old == Some(*o.get())),
            RustcEntry::Vacant(vac) => {
                let o = vac.insert_entry(v);
                assert!(*o.get() == v);
                expect = Some(v);
            }
        }
    } else {
        let r = m.rustc_entry(key).and_modify(|x| *x = x.wrapping_add(1)).or_default();
        expect = Some(match old { Some(o) => o.wrapping_add(1), None => 0 });
        assert!(Some(*r) == expect);
    }
    let q = any_id();
    let g = grew::<N>(&m);
    let want = if q == k { expect } else { st.lookup(q) };
    assert!(post_lookup::<N, N2>(&m, &h, q, g) == want);
    let dl = (expect.is_some() as isize) - (old.is_some() as isize);
    assert!(m.len() as isize == items as isize + dl);
    kani::cover!(old.is_some(), "occupied");
    kani::cover!(old.is_none(), "vacant");
    core::mem::forget(m);
}

/// Occupied-entry methods of HashMap::entry: form 0 remove, 1 remove_entry, 2 replace_entry_with,
/// 3 and_replace_entry_with, 4 Vacant dropped unused / into_key
pub fn map_entry_occ<const N: usize>(form: u8) {
    let h: [u64; K] = any();
    let (mut m, st) = mk_map::<N>(SYM, SYM, &h);
    let k = any_id();
    let v: u8 = any();
    let keep: bool = any();
    let old = st.lookup(k);
    let key = Key { id: k, payload: 0xEE };
    let mut expect = old;
    if form <= 2 {
        match m.entry(key) {
            Entry::Occupied(o) => {
                assert!(old == Some(*o.get()));
                if form == 0 {
                    assert!(Some(o.remove()) == old);
                    expect = None;
                } else if form == 1 {
                    let (rk, rv) = o.remove_entry();
                    assert!(rk.id == k && rk.payload == rv ^ 0x5A && Some(rv) == old);
                    expect = None;
                } else {
                    let e = o.replace_entry_with(|kk, vv| {
                        assert!(kk.id == k && Some(vv) == old);
                        if keep { Some(v) } else { None }
                    });
                    assert!(matches!(e, Entry::Occupied(_)) == keep);
                    expect = if keep { Some(v) } else { None };
                }
            }
            Entry::Vacant(_) => assert!(old.is_none()),
        }
    } else if form == 3 {
        let e = m.entry(key).and_replace_entry_with(|_, vv| if keep { Some(vv.wrapping_add(v)) } else { None });
        if let Some(o) = old {
            assert!(matches!(e, Entry::Occupied(_)) == keep);
            expect = if keep { Some(o.wrapping_add(v)) } else { None };
        } else {
            assert!(matches!(e, Entry::Vacant(_)));
        }
    } else {
        match m.entry(key) {
            Entry::Vacant(vac) => {
                assert!(old.is_none());
                assert!(vac.into_key().payload == 0xEE);
            }
            Entry::Occupied(_) => assert!(old.is_some()),
        }
    }
    let q = any_id();
    let want = if q == k { expect } else { st.lookup(q) };
    assert!(post_lookup::<N, N>(&m, &h, q, false) == want);
    let dl = (expect.is_some() as isize) - (old.is_some() as isize);
    assert!(m.len() as isize == st.items as isize + dl);
    core::mem::forget(m);
}
