//! C03 — every element dropped or handed out exactly once; every block returned exactly once.
//! Element type D (drop ledger per id), allocator LedgerAlloc (allocation ledger).
use crate::sym::*;
use hashbrown::verif as hv;
use hashbrown::HashTable;

type TD = HashTable<D, LedgerAlloc>;

fn mk<const N: usize>(items: usize, deleted: usize, h: &[u64; K]) -> (TD, St<N>) {
    reset_ledger();
    reset_alloc();
    let mut t: TD = HashTable::with_capacity_in(capreq(N), LedgerAlloc);
    let st = fill::<D, _, N>(
        hv::raw_of_table(&mut t),
        Spec { items, deleted, kind: InvKind::Full, h, distinct: true, id_is_slot: false, layout: None, concrete_tags: None },
    );
    (t, st)
}

/// After the collection is gone: every id that was stored has exactly one release event (a drop,
/// or a hand-over to the caller recorded in `held`), ids never stored have none; allocator balanced.
fn final_check<const N: usize>(st: &St<N>, held: &[u8; K], inserted: &[u8; K]) {
    let q = any_id();
    let stored = st.mult(q) as u8 + inserted[q as usize];
    assert!(drops(q) + held[q as usize] == stored);
    unsafe {
        assert!(A_LIVE == 0 && A_LIVE_BYTES == 0);
        assert!(A_ALLOCS == A_FREES);
    }
}

/// op: 0 drop only, 1 remove one, 2 clear, 3 retain(p), 4 extract_if cut, 5 drain cut,
/// 6 into_iter cut, 7 shrink_to(0-ish), 8 find_entry+remove+reinsert
pub fn ledger_op<const N: usize>(op: u8) {
    let h: [u64; K] = any();
    let (mut t, st) = mk::<N>(SYM, SYM, &h);
    let mut held = [0u8; K];
    let mut inserted = [0u8; K];
    let p: [bool; K] = any();
    let cut: usize = any();
    assume(cut <= 3);
    if op == 1 {
        let k = any_id();
        if let Ok(o) = t.find_entry(h[k as usize], |v| v.id == k) {
            let (v, _) = o.remove();
            assert!(drops(k) == 0); // a value returned to the caller is not also dropped
            let (id, _) = take(v);
            held[id as usize] += 1;
        }
    } else if op == 2 {
        t.clear();
        let q = any_id();
        assert!(drops(q) == st.mult(q) as u8);
        unsafe { assert!(A_LIVE == 1) }; // clear keeps the block
    } else if op == 3 {
        t.retain(|v| p[v.id as usize]);
        let q = any_id();
        assert!(drops(q) == if st.mult(q) > 0 && !p[q as usize] { 1 } else { 0 });
    } else if op == 4 {
        let mut it = t.extract_if(|v| p[v.id as usize]);
        let mut j = 0;
        while j < 3 {
            if j >= cut {
                break;
            }
            match it.next() {
                Some(v) => {
                    assert!(drops(v.id) == 0);
                    let (id, _) = take(v);
                    held[id as usize] += 1;
                }
                None => break,
            }
            j += 1;
        }
    } else if op == 5 {
        let mut it = t.drain();
        let mut j = 0;
        while j < 3 {
            if j >= cut {
                break;
            }
            match it.next() {
                Some(v) => {
                    assert!(drops(v.id) == 0);
                    let (id, _) = take(v);
                    held[id as usize] += 1;
                }
                None => break,
            }
            j += 1;
        }
        drop(it);
        // whatever was not consumed has been dropped by now, exactly once
        let q = any_id();
        assert!(drops(q) + held[q as usize] == st.mult(q) as u8);
        assert!(t.len() == 0);
        unsafe { assert!(A_LIVE == 1) };
    } else if op == 6 {
        let mut it = t.into_iter();
        let mut j = 0;
        while j < 3 {
            if j >= cut {
                break;
            }
            match it.next() {
                Some(v) => {
                    assert!(drops(v.id) == 0);
                    let (id, _) = take(v);
                    held[id as usize] += 1;
                }
                None => break,
            }
            j += 1;
        }
        drop(it);
        final_check::<N>(&st, &held, &inserted);
        return;
    } else if op == 8 {
        let k = any_id();
        if let Ok(o) = t.find_entry(h[k as usize], |v| v.id == k) {
            let (v, vac) = o.remove();
            let (id, aux) = take(v);
            // hand the same element back through the vacant entry
            vac.insert(D { id, aux });
        }
    }
    drop(t);
    final_check::<N>(&st, &held, &inserted);
}

/// growth / shrink / in-place moves must not drop or duplicate anything: elements are moved
/// bitwise, the old block is freed exactly once with its own layout.
pub fn ledger_resize<const N: usize>(items: usize, deleted: usize, op: u8, arg: usize) {
    let h: [u64; K] = any();
    let (mut t, st) = mk::<N>(items, deleted, &h);
    let held = [0u8; K];
    let mut inserted = [0u8; K];
    if op == 0 {
        t.reserve(arg, |v| h[v.id as usize]);
    } else if op == 1 {
        t.shrink_to(arg, |v| h[v.id as usize]);
    } else {
        // insert at full load (grows)
        let k = any_id();
        assume(st.mult(k) == 0);
        t.insert_unique(h[k as usize], D { id: k, aux: 1 }, |v| h[v.id as usize]);
        inserted[k as usize] = 1;
    }
    let q = any_id();
    assert!(drops(q) == 0); // nothing dropped by a move
    unsafe {
        assert!(A_LIVE <= 1);
        if A_LIVE == 1 {
            // allocation_size() equals the bytes held from the allocator
            assert!(t.allocation_size() == A_LIVE_BYTES);
        } else {
            assert!(t.allocation_size() == 0);
        }
    }
    assert!(t.len() == items + (op == 2) as usize);
    drop(t);
    final_check::<N>(&st, &held, &inserted);
}

/// A collection that was never given an element or a capacity owns no block.
pub fn no_block_when_unused() {
    reset_alloc();
    {
        let t: TD = HashTable::new_in(LedgerAlloc);
        assert!(t.allocation_size() == 0);
        let t2: TD = HashTable::with_capacity_in(0, LedgerAlloc);
        let mut t3: TD = HashTable::new_in(LedgerAlloc);
        t3.clear();
        t3.shrink_to(0, |_| 0);
        let _d = t3.drain();
    }
    unsafe { assert!(A_ALLOCS == 0 && A_FREES == 0) };
}

/// HashMap::drain consumed through `fold` (the specialised path) after `pre` calls of next():
/// every value reaches the closure exactly once and is not dropped again by the drain.
pub fn map_drain_fold<const N: usize>(pre: usize) {
    use hashbrown::HashMap;
    reset_ledger();
    let h: [u64; K] = any();
    let mut m: HashMap<Key, D, TabHasher> = HashMap::with_capacity_and_hasher(capreq(N), TabHasher { h });
    let st = fill::<(Key, D), _, N>(hv::raw_of_map(&mut m), Spec { items: SYM, deleted: SYM, kind: InvKind::Safe, h: &h, distinct: true, id_is_slot: false, layout: None, concrete_tags: None });
    let mut held = [0u8; K];
    {
        let mut d = m.drain();
        let mut j = 0;
        while j < 2 {
            if j < pre {
                if let Some((_, v)) = d.next() {
                    let (id, _) = take(v);
                    held[id as usize] += 1;
                }
            }
            j += 1;
        }
        held = d.fold(held, |mut hcc, (_, v)| {
            assert!(drops(v.id) == 0);
            let (id, _) = take(v);
            hcc[id as usize] += 1;
            hcc
        });
    }
    let q = any_id();
    assert!(held[q as usize] == st.mult(q) as u8); // each element handed out exactly once
    assert!(drops(q) == 0); // and not dropped by the drain as well
    assert!(m.len() == 0);
    core::mem::forget(m);
}

/// drain() over a two-group table with concrete counts, `cut` items taken, then dropped: the rest
/// is dropped exactly once by the drain (cheap variant of ledger_op(5) for the quick tier).
pub fn drain_counts<const N: usize>(items: usize, deleted: usize, cut: usize) {
    let h: [u64; K] = any();
    let (mut t, st) = mk::<N>(items, deleted, &h);
    let mut held = [0u8; K];
    {
        let mut it = t.drain();
        let mut j = 0;
        while j < 3 {
            if j < cut {
                if let Some(v) = it.next() {
                    let (id, _) = take(v);
                    held[id as usize] += 1;
                }
            }
            j += 1;
        }
    }
    let q = any_id();
    assert!(drops(q) + held[q as usize] == st.mult(q) as u8);
    assert!(t.len() == 0);
    unsafe { assert!(A_LIVE == 1) };
    drop(t);
    assert!(drops(q) + held[q as usize] == st.mult(q) as u8);
    unsafe { assert!(A_LIVE == 0) };
}
