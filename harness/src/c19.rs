//! C19 — sequential core of the rayon adaptors: RawIterRange::split partitions the remaining
//! buckets; the par_iter / par_drain producers deliver-or-drop every element exactly once along an
//! explicitly driven split tree. (Thread-pool scheduling itself cannot be executed by the engine.)
use crate::sym::*;
use hashbrown::verif as hv;
use hashbrown::verif::VRange;
use hashbrown::verif_rayon as hvr;
use hashbrown::HashTable;
use rayon::iter::plumbing::{Folder, UnindexedProducer};

static ZH: [u64; K] = [0; K];

fn mk_u32<const N: usize>() -> (HashTable<u32>, St<N>) {
    let mut t: HashTable<u32> = HashTable::with_capacity(capreq(N));
    let st = fill::<u32, _, N>(hv::raw_of_table(&mut t), Spec { items: SYM, deleted: SYM, kind: InvKind::Safe, h: &ZH, distinct: false, id_is_slot: true, layout: None, concrete_tags: None });
    (t, st)
}

fn drain_range<const N: usize>(mut r: VRange<u32>, t: &HashTable<u32>, st: &St<N>, seen: &mut [u8; N]) {
    let raw = hv::raw_of_table_ref(t);
    let mut j = 0;
    while j < N + 1 {
        match r.next_index(raw) {
            None => break,
            Some(i) => {
                assert!(i < N && st.c[i] < 0x80); // only live buckets
                seen[i] += 1;
            }
        }
        j += 1;
    }
    assert!(r.next_index(raw).is_none());
}

/// Split tree of depth <= 2 with symbolic split-or-consume decisions, optionally after consuming
/// a symbolic number of items from the root first: the leaves partition the remaining FULL buckets.
pub fn range_split<const N: usize>(pre: usize, shape: u8) {
    let (t, st) = mk_u32::<N>();
    let raw = hv::raw_of_table_ref(&t);
    let mut seen = [0u8; N];
    let mut root = VRange::of_table(raw);
    // consume a prefix before splitting (pre and the tree shape are concrete per instance: symbolic
    // decisions multiply the number of drained leaves CBMC has to unroll)
    let mut j = 0;
    while j < 2 {
        if j < pre {
            if let Some(i) = root.next_index(raw) {
                assert!(i < N && st.c[i] < 0x80);
                seen[i] += 1;
            }
        }
        j += 1;
    }
    let d1 = shape != 0;
    if !d1 {
        drain_range::<N>(root, &t, &st, &mut seen);
    } else {
        let (l, r) = root.split();
        let d2 = shape == 2 || shape == 4;
        let d3 = shape == 3 || shape == 4;
        if d2 {
            let (ll, lr) = l.split();
            drain_range::<N>(ll, &t, &st, &mut seen);
            if let Some(lr) = lr {
                drain_range::<N>(lr, &t, &st, &mut seen);
            }
        } else {
            drain_range::<N>(l, &t, &st, &mut seen);
        }
        if let Some(r) = r {
            if d3 {
                let (rl, rr) = r.split();
                drain_range::<N>(rl, &t, &st, &mut seen);
                if let Some(rr) = rr {
                    drain_range::<N>(rr, &t, &st, &mut seen);
                }
            } else {
                drain_range::<N>(r, &t, &st, &mut seen);
            }
        }
    }
    // each FULL bucket exactly once, nothing else
    let mut i = 0;
    while i < N {
        assert!(seen[i] == (st.c[i] < 0x80) as u8);
        i += 1;
    }
    core::mem::forget(t);
}

struct BitFolder<const N: usize> {
    seen: [u8; N],
    limit: usize,
    got: usize,
}
impl<const N: usize> Folder<hv::Bucket<u32>> for BitFolder<N> {
    type Result = ([u8; N], usize);
    fn consume(mut self, b: hv::Bucket<u32>) -> Self {
        let v = unsafe { *b.as_ptr() };
        self.seen[(v as u8) as usize % N] += 1;
        self.got += 1;
        self
    }
    fn complete(self) -> Self::Result {
        (self.seen, self.got)
    }
    fn full(&self) -> bool {
        self.got >= self.limit
    }
}

/// ParIterProducer: split once (or not), fold both halves with a never-full folder.
pub fn par_iter_producer<const N: usize>(do_split: bool) {
    let (t, st) = mk_u32::<N>();
    let raw = hv::raw_of_table_ref(&t);
    let p = unsafe { hvr::v_par_iter_producer(raw) };
    let mut total = [0u8; N];
    if do_split {
        let (l, r) = p.split();
        let (s1, _) = l.fold_with(BitFolder::<N> { seen: [0; N], limit: usize::MAX, got: 0 }).complete();
        let mut i = 0;
        while i < N {
            total[i] += s1[i];
            i += 1;
        }
        if let Some(r) = r {
            let (s2, _) = r.fold_with(BitFolder::<N> { seen: [0; N], limit: usize::MAX, got: 0 }).complete();
            let mut i = 0;
            while i < N {
                total[i] += s2[i];
                i += 1;
            }
        }
    } else {
        let (s, n) = p.fold_with(BitFolder::<N> { seen: [0; N], limit: usize::MAX, got: 0 }).complete();
        assert!(n == st.items);
        total = s;
    }
    let mut i = 0;
    while i < N {
        assert!(total[i] == (st.c[i] < 0x80) as u8);
        i += 1;
    }
    core::mem::forget(t);
}

struct TakeFolder {
    limit: usize,
    got: usize,
    held: [u8; K],
}
impl Folder<D> for TakeFolder {
    type Result = [u8; K];
    fn consume(mut self, d: D) -> Self {
        assert!(drops(d.id) == 0);
        let (id, _) = take(d);
        self.held[id as usize % K] += 1;
        self.got += 1;
        self
    }
    fn complete(self) -> Self::Result {
        self.held
    }
    fn full(&self) -> bool {
        self.got >= self.limit
    }
}

/// ParDrainProducer: split (forgets self), left half folded by a consumer that becomes full after
/// a symbolic number of items, right half either folded or dropped unconsumed. Every element is
/// delivered or dropped exactly once; the guard's clear_no_drop leaves a valid empty table.
pub fn par_drain_producer<const N: usize>(limit: usize, do_split: bool, fold_right: bool) {
    reset_ledger();
    let mut t: HashTable<D> = HashTable::with_capacity(capreq(N));
    let st = fill::<D, _, N>(hv::raw_of_table(&mut t), Spec { items: SYM, deleted: SYM, kind: InvKind::Safe, h: &ZH, distinct: true, id_is_slot: false, layout: None, concrete_tags: None });
    let mut held = [0u8; K];
    {
        let raw = hv::raw_of_table_ref(&t);
        let p = unsafe { hvr::v_par_drain_producer(raw) };
        if do_split {
            let (l, r) = p.split();
            let h1 = l.fold_with(TakeFolder { limit, got: 0, held: [0; K] }).complete();
            let mut i = 0;
            while i < K {
                held[i] += h1[i];
                i += 1;
            }
            if let Some(r) = r {
                if fold_right {
                    let h2 = r.fold_with(TakeFolder { limit: usize::MAX, got: 0, held: [0; K] }).complete();
                    let mut i = 0;
                    while i < K {
                        held[i] += h2[i];
                        i += 1;
                    }
                } else {
                    drop(r); // never handed to a consumer: its elements must be dropped
                }
            }
        } else {
            let h1 = p.fold_with(TakeFolder { limit, got: 0, held: [0; K] }).complete();
            held = h1;
        }
    }
    let q = any_id();
    assert!(held[q as usize] + drops(q) == st.mult(q) as u8); // delivered xor dropped, exactly once
    // what RawParDrain's guard does afterwards
    hv::raw_of_table(&mut t).clear_no_drop();
    assert!(t.len() == 0);
    let post = snap::<D, _, N>(hv::raw_of_table_ref(&t));
    assert!(inv::<N>(&post, InvKind::Safe, &ZH, false, true) && post.count(EMPTY) == N);
    drop(t);
    assert!(held[q as usize] + drops(q) == st.mult(q) as u8); // and not again by the table
}
