//! C01 — HashMap against a sequential association list; inductive step harnesses from an
//! arbitrary Inv pre-state (keys pairwise distinct), hasher = arbitrary table over key ids.
use crate::sym::*;
use hashbrown::hash_map::{Entry, EntryRef};
use hashbrown::verif as hv;
use hashbrown::HashMap;

pub type M = HashMap<Key, u8, TabHasher>;
type E = (Key, u8);

pub fn mk_map<const N: usize>(items: usize, deleted: usize, h: &[u64; K]) -> (M, St<N>) {
    let mut m: M = HashMap::with_capacity_and_hasher(capreq(N), TabHasher { h: *h });
    let st = fill::<E, _, N>(
        hv::raw_of_map(&mut m),
        Spec { items, deleted, kind: InvKind::Full, h, distinct: true, id_is_slot: false, layout: None, concrete_tags: None },
    );
    (m, st)
}

/// Inv (keys distinct) on the post-state; returns the value stored under q.
pub fn post_lookup<const N: usize, const N2: usize>(m: &M, h: &[u64; K], q: u8, want_n2: bool) -> Option<u8> {
    let raw = hv::raw_of_map_ref(m);
    let b = buckets_of(raw);
    if !want_n2 {
        assert!(b == N);
        let post = snap::<E, _, N>(raw);
        // without growth the free-slot accounting stays exact (capacity() stays honest)
        assert!(inv::<N>(&post, InvKind::Full, h, true, true));
        post.lookup(q)
    } else {
        assert!(b == N2);
        let post = snap::<E, _, N2>(raw);
        assert!(inv::<N2>(&post, InvKind::Full, h, true, false));
        post.lookup(q)
    }
}
fn grew<const N: usize>(m: &M) -> bool {
    buckets_of(hv::raw_of_map_ref(m)) != N
}

/// get / get_mut / contains_key / get_key_value, by key and by an equivalent borrowed form.
pub fn lookup<const N: usize>() {
    let h: [u64; K] = any();
    let (mut m, st) = mk_map::<N>(SYM, SYM, &h);
    let k = any_id();
    let want = st.lookup(k);
    let key = Key { id: k, payload: any() };
    assert!(m.get(&key).copied() == want);
    assert!(m.contains_key(&key) == want.is_some());
    assert!(m.get_mut(&key).map(|v| *v) == want);
    match m.get_key_value(&key) {
        Some((sk, sv)) => {
            assert!(Some(*sv) == want && sk.id == k);
            assert!(sk.payload == *sv ^ 0x5A); // the stored key, not the probe
        }
        None => assert!(want.is_none()),
    }
    // equivalent borrowed form finds the same entry
    let r = KeyRef(k);
    assert!(m.get(&r).copied() == want);
    assert!(m.contains_key(&r) == want.is_some());
    assert!(m.len() == st.items);
    kani::cover!(want.is_some(), "hit");
    kani::cover!(want.is_none(), "miss");
    core::mem::forget(m);
}

/// insert(k, v): absent -> None and stored; present -> Some(old), value replaced, stored key kept.
pub fn insert<const N: usize, const N2: usize>(items: usize, deleted: usize) {
    let h: [u64; K] = any();
    let (mut m, st) = mk_map::<N>(items, deleted, &h);
    let k = any_id();
    let v: u8 = any();
    let old = st.lookup(k);
    let r = m.insert(Key { id: k, payload: 0xEE }, v);
    assert!(r == old);
    assert!(m.len() == items + if old.is_none() { 1 } else { 0 });
    let q = any_id();
    let expect = if q == k { Some(v) } else { st.lookup(q) };
    let g = grew::<N>(&m);
    assert!(post_lookup::<N, N2>(&m, &h, q, g) == expect);
    // key identity: an overwritten entry keeps its original key
    let (sk, sv) = m.get_key_value(&Key { id: k, payload: 0 }).unwrap();
    assert!(*sv == v);
    match old {
        Some(o) => assert!(sk.payload == o ^ 0x5A),
        None => assert!(sk.payload == 0xEE),
    }
    kani::cover!(old.is_some(), "overwrite");
    kani::cover!(old.is_none(), "fresh insert");
    core::mem::forget(m);
}

/// remove / remove_entry
pub fn remove<const N: usize>(entry_form: bool) {
    let h: [u64; K] = any();
    let (mut m, st) = mk_map::<N>(SYM, SYM, &h);
    let k = any_id();
    let old = st.lookup(k);
    if entry_form {
        let r = m.remove_entry(&Key { id: k, payload: 1 });
        assert!(r.map(|(_, v)| v) == old);
        if let Some((sk, sv)) = r {
            assert!(sk.id == k && sk.payload == sv ^ 0x5A);
        }
    } else {
        // through the equivalent borrowed form
        assert!(m.remove(&KeyRef(k)) == old);
    }
    assert!(m.len() == st.items - if old.is_some() { 1 } else { 0 });
    let q = any_id();
    let expect = if q == k { None } else { st.lookup(q) };
    assert!(post_lookup::<N, N>(&m, &h, q, false) == expect);
    assert!(m.get(&Key { id: k, payload: 0 }).is_none());
    kani::cover!(old.is_some(), "removed");
    core::mem::forget(m);
}

/// try_insert
pub fn try_insert<const N: usize, const N2: usize>(items: usize, deleted: usize) {
    let h: [u64; K] = any();
    let (mut m, st) = mk_map::<N>(items, deleted, &h);
    let k = any_id();
    let v: u8 = any();
    let old = st.lookup(k);
    match m.try_insert(Key { id: k, payload: 0xEE }, v) {
        Ok(r) => {
            assert!(old.is_none() && *r == v);
        }
        Err(e) => {
            assert!(old == Some(*e.entry.get()) && e.value == v);
        }
    }
    let q = any_id();
    let expect = if q == k && old.is_none() { Some(v) } else { st.lookup(q) };
    let g = grew::<N>(&m);
    assert!(post_lookup::<N, N2>(&m, &h, q, g) == expect);
    core::mem::forget(m);
}

/// entry / entry_ref chains; form: 0 or_insert, 1 and_modify+or_insert, 2 entry_ref or_insert,
/// 3 Occupied::insert / Vacant::insert_entry, 4 or_insert_with_key, 5 or_default
pub fn entry<const N: usize, const N2: usize>(items: usize, deleted: usize, form: u8) {
    let h: [u64; K] = any();
    let (mut m, st) = mk_map::<N>(items, deleted, &h);
    let k = any_id();
    let v: u8 = any();
    let old = st.lookup(k);
    let key = Key { id: k, payload: 0xEE };
    let expect_k: u8;
    if form == 0 {
        let r = m.entry(key).or_insert(v);
        expect_k = old.unwrap_or(v);
        assert!(*r == expect_k);
    } else if form == 1 {
        let r = m.entry(key).and_modify(|x| *x = x.wrapping_add(1)).or_insert(v);
        expect_k = match old { Some(o) => o.wrapping_add(1), None => v };
        assert!(*r == expect_k);
    } else if form == 2 {
        let kr = KeyRef(k);
        let r = m.entry_ref(&kr).or_insert(v);
        expect_k = old.unwrap_or(v);
        assert!(*r == expect_k);
    } else if form == 3 {
        match m.entry(key) {
            Entry::Occupied(mut o) => {
                assert!(old == Some(*o.get()));
                assert!(o.key().id == k);
                let prev = o.insert(v);
                assert!(Some(prev) == old);
            }
            Entry::Vacant(vac) => {
                assert!(old.is_none());
                assert!(vac.key().id == k);
                let o = vac.insert_entry(v);
                assert!(*o.get() == v);
            }
        }
        expect_k = v;
    } else if form == 4 {
        let r = m.entry(key).or_insert_with_key(|kk| kk.id.wrapping_add(v));
        expect_k = old.unwrap_or(k.wrapping_add(v));
        assert!(*r == expect_k);
    } else {
        let r = m.entry(key).or_default();
        expect_k = old.unwrap_or(0);
        assert!(*r == expect_k);
    }
    assert!(m.len() == items + if old.is_none() { 1 } else { 0 });
    let q = any_id();
    let expect = if q == k { Some(expect_k) } else { st.lookup(q) };
    let g = grew::<N>(&m);
    assert!(post_lookup::<N, N2>(&m, &h, q, g) == expect);
    kani::cover!(old.is_some(), "occupied");
    kani::cover!(old.is_none(), "vacant");
    core::mem::forget(m);
}

/// retain with an arbitrary predicate table; predicate mutations persist.
pub fn retain<const N: usize>() {
    let h: [u64; K] = any();
    let (mut m, st) = mk_map::<N>(SYM, SYM, &h);
    let p: [bool; K] = any();
    let mut calls = [0u8; K];
    m.retain(|k, v| {
        calls[k.id as usize] += 1;
        *v = v.wrapping_add(3);
        p[k.id as usize]
    });
    let q = any_id();
    let expect = match st.lookup(q) {
        Some(o) if p[q as usize] => Some(o.wrapping_add(3)),
        _ => None,
    };
    assert!(post_lookup::<N, N>(&m, &h, q, false) == expect);
    assert!(calls[q as usize] == if st.lookup(q).is_some() { 1 } else { 0 });
    core::mem::forget(m);
}

pub fn clear_reserve_shrink<const N: usize, const N2: usize>(items: usize, deleted: usize, op: u8, arg: usize) {
    let h: [u64; K] = any();
    let (mut m, st) = mk_map::<N>(items, deleted, &h);
    if op == 0 {
        m.clear();
        assert!(m.len() == 0 && m.is_empty());
        let q = any_id();
        assert!(post_lookup::<N, N>(&m, &h, q, false).is_none());
        assert!(m.capacity() == real_capacity(N));
        core::mem::forget(m);
        return;
    }
    if op == 1 {
        m.reserve(arg);
        assert!(m.capacity() >= items + arg);
    } else if op == 2 {
        m.shrink_to(arg);
    } else {
        m.shrink_to_fit();
    }
    assert!(m.len() == items && m.capacity() >= items);
    let q = any_id();
    let g = grew::<N>(&m);
    assert!(post_lookup::<N, N2>(&m, &h, q, g) == st.lookup(q));
    core::mem::forget(m);
}

/// extend with two symbolic pairs (later value wins), on a table with room.
pub fn extend2<const N: usize, const N2: usize>(items: usize, deleted: usize) {
    let h: [u64; K] = any();
    let (mut m, st) = mk_map::<N>(items, deleted, &h);
    let k1 = any_id();
    let k2 = any_id();
    let v1: u8 = any();
    let v2: u8 = any();
    m.extend([(Key { id: k1, payload: 1 }, v1), (Key { id: k2, payload: 2 }, v2)]);
    let q = any_id();
    let expect = if q == k2 { Some(v2) } else if q == k1 { Some(v1) } else { st.lookup(q) };
    let g = grew::<N>(&m);
    assert!(post_lookup::<N, N2>(&m, &h, q, g) == expect);
    core::mem::forget(m);
}

pub fn base_case() {
    let h: [u64; K] = any();
    let m: M = HashMap::with_hasher(TabHasher { h });
    assert!(m.len() == 0 && m.capacity() == 0);
    let k = any_id();
    assert!(m.get(&Key { id: k, payload: 0 }).is_none());
    let d: HashMap<Key, u8, TabHasherD> = HashMap::default();
    assert!(d.len() == 0 && d.capacity() == 0);
    let mut m2: M = HashMap::with_hasher(TabHasher { h });
    // first insert into the unallocated singleton
    let v: u8 = any();
    assert!(m2.insert(Key { id: k, payload: 9 }, v).is_none());
    assert!(m2.get(&Key { id: k, payload: 0 }) == Some(&v));
    assert!(m2.len() == 1);
}
#[derive(Default, Clone)]
pub struct TabHasherD;
impl core::hash::BuildHasher for TabHasherD {
    type Hasher = THD;
    fn build_hasher(&self) -> THD {
        THD(0)
    }
}
pub struct THD(u64);
impl core::hash::Hasher for THD {
    fn write(&mut self, _: &[u8]) {}
    fn write_u8(&mut self, x: u8) {
        self.0 = x as u64;
    }
    fn finish(&self) -> u64 {
        self.0
    }
}

