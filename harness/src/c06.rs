//! C06 — HashTable (explicit-hash API) against a multiset model; inductive step harnesses from an
//! arbitrary Inv pre-state of N buckets (concrete counts, symbolic layout / elements / hashes).
use crate::sym::*;
use hashbrown::verif as hv;
use hashbrown::HashTable;

type T = u32;

pub fn mk_table<const N: usize>(items: usize, deleted: usize, h: &[u64; K], kind: InvKind) -> (HashTable<T>, St<N>) {
    let mut t: HashTable<T> = HashTable::with_capacity(capreq(N));
    let st = fill::<T, _, N>(hv::raw_of_table(&mut t), Spec { items, deleted, kind, h, distinct: false, id_is_slot: false, layout: None, concrete_tags: None });
    (t, st)
}

/// find / find_mut: Some exactly when the multiset holds the id; the element returned has it.
pub fn find<const N: usize>(items: usize, deleted: usize) {
    let h: [u64; K] = any();
    let (mut t, st) = mk_table::<N>(items, deleted, &h, InvKind::Full);
    let k = any_id();
    let present = st.mult(k) > 0;
    let r = t.find(h[k as usize], |v| v.id() == k);
    assert!(r.is_some() == present);
    if let Some(v) = r {
        assert!(v.id() == k);
        assert!(st.mult2(k, v.aux()) > 0);
    }
    let r2 = t.find_mut(h[k as usize], |v| v.id() == k);
    assert!(r2.is_some() == present);
    assert!(t.len() == st.items);
    kani::cover!(present, "lookup hit");
    kani::cover!(!present, "lookup miss");
    core::mem::forget(t);
}

/// insert_unique of a symbolic element (possibly a duplicate of a stored id); N2 = bucket count
/// the implementation is expected to end with (N unless the call has to grow).
pub fn insert<const N: usize, const N2: usize>(items: usize, deleted: usize) {
    let h: [u64; K] = any();
    let (mut t, st) = mk_table::<N>(items, deleted, &h, InvKind::Full);
    let k = any_id();
    let aux: u8 = any();
    let e = t.insert_unique(h[k as usize], T::mk(k, aux), |v| h[v.id() as usize]);
    assert!(e.get().id() == k && e.get().aux() == aux);
    assert!(t.len() == items + 1);
    let raw = hv::raw_of_table_ref(&t);
    assert!(buckets_of(raw) == N2);
    let post = snap::<T, _, N2>(raw);
    // (no growth in the instances of this harness: the free-slot accounting stays exact)
    assert!(inv::<N2>(&post, InvKind::Full, &h, false, N2 == N));
    // multiset: exactly one more (k, aux), everything else unchanged
    let q = any_id();
    let qa: u8 = any();
    let expect = st.mult2(q, qa) + if q == k && qa == aux { 1 } else { 0 };
    assert!(post.mult2(q, qa) == expect);
    assert!(t.find(h[k as usize], |v| v.id() == k && v.aux() == aux).is_some());
    core::mem::forget(t);
}

/// find_entry + OccupiedEntry::remove, then VacantEntry::insert of a replacement with the same
/// hash into the returned slot.
pub fn remove_reinsert<const N: usize>(items: usize, deleted: usize, reinsert: bool) {
    let h: [u64; K] = any();
    let (mut t, st) = mk_table::<N>(items, deleted, &h, InvKind::Full);
    let k = any_id();
    let present = st.mult(k) > 0;
    let aux2: u8 = any();
    let mut removed_aux = 0u8;
    match t.find_entry(h[k as usize], |v| v.id() == k) {
        Ok(o) => {
            assert!(present);
            let (v, vac) = o.remove();
            assert!(v.id() == k);
            removed_aux = v.aux();
            assert!(st.mult2(k, removed_aux) > 0);
            if reinsert {
                let o2 = vac.insert(T::mk(k, aux2));
                assert!(o2.get().id() == k && o2.get().aux() == aux2);
            }
        }
        Err(_) => {
            assert!(!present);
        }
    }
    let raw = hv::raw_of_table_ref(&t);
    assert!(buckets_of(raw) == N);
    let post = snap::<T, _, N>(raw);
    // removal keeps the free-slot accounting exact (capacity() stays honest, C08/C13)
    assert!(inv::<N>(&post, InvKind::Full, &h, false, true));
    let q = any_id();
    let qa: u8 = any();
    let mut expect = st.mult2(q, qa);
    if present && q == k && qa == removed_aux {
        expect -= 1;
    }
    if present && reinsert && q == k && qa == aux2 {
        expect += 1;
    }
    assert!(post.mult2(q, qa) == expect);
    assert!(t.len() == if present && !reinsert { st.items - 1 } else { st.items });
    kani::cover!(present, "removed an element");
    kani::cover!(present && post.count(DELETED) > st.count(DELETED), "erase left a tombstone");
    kani::cover!(present && post.count(EMPTY) > st.count(EMPTY), "erase restored EMPTY");
    core::mem::forget(t);
}

/// Asserts Inv on the post-state and returns the multiplicity of (q, qa) in it; the table must end
/// with N or N2 buckets.
fn post_mult<const N: usize, const N2: usize>(t: &HashTable<T>, h: &[u64; K], q: u8, qa: u8, want_n2: bool) -> usize {
    let raw = hv::raw_of_table_ref(t);
    let b = buckets_of(raw);
    if !want_n2 {
        assert!(b == N);
        let post = snap::<T, _, N>(raw);
        assert!(inv::<N>(&post, InvKind::Full, h, false, false));
        post.mult2(q, qa)
    } else {
        assert!(b == N2);
        let post = snap::<T, _, N2>(raw);
        assert!(inv::<N2>(&post, InvKind::Full, h, false, false));
        post.mult2(q, qa)
    }
}

/// insert_unique at growth_left == 0 (items + deleted == capacity): the slot found is a tombstone
/// (no growth), or EMPTY and the table rehashes in place (items+1 <= capacity/2) or grows to N2.
pub fn insert_full<const N: usize, const N2: usize>(items: usize, deleted: usize) {
    let h: [u64; K] = any();
    let (mut t, st) = mk_table::<N>(items, deleted, &h, InvKind::Full);
    assert!(st.growth_left == 0);
    let k = any_id();
    let aux: u8 = any();
    t.insert_unique(h[k as usize], T::mk(k, aux), |v| h[v.id() as usize]);
    assert!(t.len() == items + 1);
    let q = any_id();
    let qa: u8 = any();
    let expect = st.mult2(q, qa) + if q == k && qa == aux { 1 } else { 0 };
    let grew = buckets_of(hv::raw_of_table_ref(&t)) != N;
    if grew {
        // growth only when in-place reclamation cannot make room
        assert!(items + 1 > real_capacity(N) / 2);
    }
    assert!(post_mult::<N, N2>(&t, &h, q, qa, grew) == expect);
    kani::cover!(grew, "grew");
    kani::cover!(!grew, "stayed");
    core::mem::forget(t);
}

/// entry(): Occupied exactly when present; Vacant::insert / Occupied::remove act on the multiset.
pub fn entry<const N: usize, const N2: usize>(items: usize, deleted: usize) {
    let h: [u64; K] = any();
    let (mut t, st) = mk_table::<N>(items, deleted, &h, InvKind::Full);
    let k = any_id();
    let aux: u8 = any();
    let present = st.mult(k) > 0;
    let do_remove: bool = any();
    let mut delta: i8 = 0;
    let mut removed_aux = 0u8;
    match t.entry(h[k as usize], |v| v.id() == k, |v| h[v.id() as usize]) {
        hashbrown::hash_table::Entry::Occupied(o) => {
            assert!(present);
            assert!(o.get().id() == k);
            if do_remove {
                let (v, _vac) = o.remove();
                removed_aux = v.aux();
                delta = -1;
            }
        }
        hashbrown::hash_table::Entry::Vacant(v) => {
            assert!(!present);
            if !do_remove {
                let o = v.insert(T::mk(k, aux));
                assert!(o.get().aux() == aux);
                delta = 1;
            }
        }
    }
    assert!(t.len() as isize == items as isize + delta as isize);
    let q = any_id();
    let qa: u8 = any();
    let mut expect = st.mult2(q, qa);
    if delta == 1 && q == k && qa == aux {
        expect += 1;
    }
    if delta == -1 && q == k && qa == removed_aux {
        expect -= 1;
    }
    let grew = buckets_of(hv::raw_of_table_ref(&t)) != N;
    assert!(post_mult::<N, N2>(&t, &h, q, qa, grew) == expect);
    kani::cover!(present, "occupied");
    kani::cover!(!present && delta == 1, "vacant insert");
    core::mem::forget(t);
}

/// reserve(additional): contents unchanged, growth_left >= additional afterwards.
pub fn reserve<const N: usize, const N2: usize>(items: usize, deleted: usize, additional: usize) {
    let h: [u64; K] = any();
    let (mut t, st) = mk_table::<N>(items, deleted, &h, InvKind::Full);
    t.reserve(additional, |v| h[v.id() as usize]);
    assert!(t.len() == items);
    assert!(t.capacity() >= items + additional);
    let q = any_id();
    let qa: u8 = any();
    let grew = buckets_of(hv::raw_of_table_ref(&t)) != N;
    assert!(post_mult::<N, N2>(&t, &h, q, qa, grew) == st.mult2(q, qa));
    core::mem::forget(t);
}

/// shrink_to(m): contents unchanged; N2 = bucket count expected afterwards (1 = unallocated).
pub fn shrink_to<const N: usize, const N2: usize>(items: usize, deleted: usize, m: usize) {
    let h: [u64; K] = any();
    let (mut t, st) = mk_table::<N>(items, deleted, &h, InvKind::Full);
    let cap0 = t.capacity();
    t.shrink_to(m, |v| h[v.id() as usize]);
    assert!(t.len() == items);
    assert!(t.capacity() >= items);
    let want = if m < cap0 { m } else { cap0 };
    assert!(t.capacity() >= want);
    let raw = hv::raw_of_table_ref(&t);
    if N2 == 1 {
        assert!(raw.v_is_empty_singleton());
        assert!(items == 0);
    } else {
        let q = any_id();
        let qa: u8 = any();
        let shrunk = buckets_of(raw) != N;
        assert!(post_mult::<N, N2>(&t, &h, q, qa, shrunk) == st.mult2(q, qa));
        // never more buckets than before
        assert!(buckets_of(raw) <= N);
    }
    core::mem::forget(t);
}

/// clear(): empty, same allocation, full capacity available again.
pub fn clear<const N: usize>() {
    let h: [u64; K] = any();
    let (mut t, st) = mk_table::<N>(SYM, SYM, &h, InvKind::Full);
    let p0 = hv::raw_of_table_ref(&t).v_ctrl_ptr();
    t.clear();
    assert!(t.len() == 0 && t.is_empty());
    let raw = hv::raw_of_table_ref(&t);
    assert!(raw.v_ctrl_ptr() == p0);
    let post = snap::<T, _, N>(raw);
    assert!(inv::<N>(&post, InvKind::Full, &h, false, true));
    assert!(post.count(EMPTY) == N);
    assert!(t.capacity() == real_capacity(N));
    core::mem::forget(t);
}

/// iter_hash(hash): yields every stored element inserted with that hash, no bucket twice, fused.
pub fn iter_hash<const N: usize>() {
    let h: [u64; K] = any();
    let (t, st) = mk_table::<N>(SYM, SYM, &h, InvKind::Full);
    let k = any_id();
    let hk = h[k as usize];
    let base = unsafe { hv::raw_of_table_ref(&t).v_elem_ptr(0) } as usize;
    let mut seen = [false; N];
    let mut cnt_k = 0usize;
    let mut it = t.iter_hash(hk);
    let mut steps = 0;
    while steps < N + 1 {
        match it.next() {
            None => break,
            Some(v) => {
                // slot index from the element address (element i lives at base - i*size)
                let idx = (base - (v as *const T as usize)) / core::mem::size_of::<T>();
                assert!(idx < N);
                assert!(st.c[idx] < 0x80); // only live slots are handed out
                assert!(!seen[idx]); // no bucket twice
                seen[idx] = true;
                if v.id() == k {
                    cnt_k += 1;
                }
            }
        }
        steps += 1;
    }
    assert!(steps <= N);
    assert!(it.next().is_none()); // fused
    // every stored element whose hash is hk was yielded
    let mut i = 0;
    while i < N {
        if st.c[i] < 0x80 && h[st.e[i] as usize] == hk {
            assert!(seen[i]);
        }
        i += 1;
    }
    assert!(cnt_k == st.mult(k));
    kani::cover!(cnt_k >= 2, "duplicates of one id yielded");
    core::mem::forget(t);
}

/// base case: new / with_capacity / default satisfy the invariant and allocate as documented.
pub fn base_case<const C: usize>() {
    let h: [u64; K] = any();
    let t0: HashTable<T> = HashTable::new();
    assert!(hv::raw_of_table_ref(&t0).v_is_empty_singleton());
    assert!(t0.len() == 0 && t0.capacity() == 0);
    assert!(t0.find(any(), |_| true).is_none());
    let c: usize = C;
    let t: HashTable<T> = HashTable::with_capacity(c);
    assert!(t.capacity() >= c && t.len() == 0);
    let raw = hv::raw_of_table_ref(&t);
    if c == 0 {
        assert!(raw.v_is_empty_singleton());
    } else {
        let b = buckets_of(raw);
        assert!(b == 4 || b == 8 || b == 16 || b == 32);
        if b == 4 {
            let s = snap::<T, _, 4>(raw);
            assert!(inv::<4>(&s, InvKind::Full, &h, false, true) && s.count(EMPTY) == 4);
        } else if b == 8 {
            let s = snap::<T, _, 8>(raw);
            assert!(inv::<8>(&s, InvKind::Full, &h, false, true) && s.count(EMPTY) == 8);
        } else if b == 16 {
            let s = snap::<T, _, 16>(raw);
            assert!(inv::<16>(&s, InvKind::Full, &h, false, true) && s.count(EMPTY) == 16);
        } else {
            let s = snap::<T, _, 32>(raw);
            assert!(inv::<32>(&s, InvKind::Full, &h, false, true) && s.count(EMPTY) == 32);
        }
    }
}

pub fn mk_table_layout<const N: usize>(full: u64, del: u64, h: &[u64; K]) -> (HashTable<T>, St<N>) {
    let mut t: HashTable<T> = HashTable::with_capacity(capreq(N));
    let items = full.count_ones() as usize;
    let deleted = del.count_ones() as usize;
    let st = fill::<T, _, N>(hv::raw_of_table(&mut t), Spec { items, deleted, kind: InvKind::Full, h, distinct: false, id_is_slot: false, layout: Some((full, del)), concrete_tags: None });
    (t, st)
}

/// reserve(1) on a table whose free room is locked up in tombstones -> in-place rehash.
/// Occupancy pattern concrete (see Spec::layout), tags / elements / hashes symbolic.
pub fn rehash_layout<const N: usize>(full: u64, del: u64) {
    let h: [u64; K] = any();
    let (mut t, st) = mk_table_layout::<N>(full, del, &h);
    assert!(st.growth_left == 0);
    let items = st.items;
    t.reserve(1, |v| h[v.id() as usize]);
    assert!(t.len() == items);
    assert!(t.capacity() >= items + 1);
    let q = any_id();
    let qa: u8 = any();
    assert!(post_mult::<N, N>(&t, &h, q, qa, false) == st.mult2(q, qa));
    // all tombstones reclaimed
    let post = snap::<T, _, N>(hv::raw_of_table_ref(&t));
    assert!(post.count(DELETED) == 0);
    assert!(post.growth_left == real_capacity(N) - items);
    core::mem::forget(t);
}

/// As `rehash_layout`, with concrete ids and tags (mode `tm`), symbolic position bits.
pub fn rehash_layout_ct<const N: usize>(full: u64, del: u64, tm: u8) {
    let h = hashes_with_tags(tm);
    let mut t: HashTable<T> = HashTable::with_capacity(capreq(N));
    let items = full.count_ones() as usize;
    let deleted = del.count_ones() as usize;
    let st = fill::<T, _, N>(hv::raw_of_table(&mut t), Spec { items, deleted, kind: InvKind::Full, h: &h, distinct: false, id_is_slot: false, layout: Some((full, del)), concrete_tags: Some(tm) });
    assert!(st.growth_left == 0);
    t.reserve(1, |v| h[v.id() as usize]);
    assert!(t.len() == items);
    assert!(t.capacity() >= items + 1);
    let q = any_id();
    let qa: u8 = any();
    assert!(post_mult::<N, N>(&t, &h, q, qa, false) == st.mult2(q, qa));
    let post = snap::<T, _, N>(hv::raw_of_table_ref(&t));
    assert!(post.count(DELETED) == 0);
    assert!(post.growth_left == real_capacity(N) - items);
    core::mem::forget(t);
}

/// `rehash_layout_ct` with one-byte elements: the whole 16-bucket table is a 40-byte block, small
/// enough for CBMC to track every control byte individually.
pub fn rehash_layout_ct8<const N: usize>(full: u64, del: u64, tm: u8) {
    let h = hashes_with_tags(tm);
    let mut t: HashTable<u8> = HashTable::with_capacity(capreq(N));
    let items = full.count_ones() as usize;
    let deleted = del.count_ones() as usize;
    let st = fill::<u8, _, N>(hv::raw_of_table(&mut t), Spec { items, deleted, kind: InvKind::Full, h: &h, distinct: false, id_is_slot: false, layout: Some((full, del)), concrete_tags: Some(tm) });
    assert!(st.growth_left == 0);
    t.reserve(1, |v| h[*v as usize]);
    assert!(t.len() == items);
    assert!(t.capacity() >= items + 1);
    let raw = hv::raw_of_table_ref(&t);
    assert!(buckets_of(raw) == N);
    let post = snap::<u8, _, N>(raw);
    assert!(inv::<N>(&post, InvKind::Full, &h, false, false));
    let q = any_id();
    assert!(post.mult(q) == st.mult(q));
    assert!(post.count(DELETED) == 0);
    assert!(post.growth_left == real_capacity(N) - items);
    core::mem::forget(t);
}

/// try_reserve(1) on the same tombstone-saturated table: must make room (in place) or report failure,
/// never return Ok without capacity.
pub fn rehash_layout_ct8_try<const N: usize>(full: u64, del: u64, tm: u8) {
    let h = hashes_with_tags(tm);
    let mut t: HashTable<u8> = HashTable::with_capacity(capreq(N));
    let items = full.count_ones() as usize;
    let deleted = del.count_ones() as usize;
    let st = fill::<u8, _, N>(hv::raw_of_table(&mut t), Spec { items, deleted, kind: InvKind::Full, h: &h, distinct: false, id_is_slot: false, layout: Some((full, del)), concrete_tags: Some(tm) });
    assert!(st.growth_left == 0);
    let r = t.try_reserve(1, |v| h[*v as usize]);
    assert!(r.is_ok());
    assert!(t.capacity() >= items + 1);
    let raw = hv::raw_of_table_ref(&t);
    assert!(buckets_of(raw) == N);
    let post = snap::<u8, _, N>(raw);
    assert!(inv::<N>(&post, InvKind::Full, &h, false, true));
    let q = any_id();
    assert!(post.mult(q) == st.mult(q));
    core::mem::forget(t);
}

/// iter_hash on a concrete occupancy pattern with tombstones (ids and tags concrete, position bits
/// symbolic): the two-group case that the fully symbolic `iter_hash::<16>` only reaches in the
/// thorough tier.
pub fn iter_hash_layout<const N: usize>(full: u64, del: u64, tm: u8) {
    let h = hashes_with_tags(tm);
    let mut t: HashTable<u8> = HashTable::with_capacity(capreq(N));
    let items = full.count_ones() as usize;
    let deleted = del.count_ones() as usize;
    let st = fill::<u8, _, N>(hv::raw_of_table(&mut t), Spec { items, deleted, kind: InvKind::Full, h: &h, distinct: false, id_is_slot: false, layout: Some((full, del)), concrete_tags: Some(tm) });
    let k = any_id();
    let hk = h[k as usize];
    let base = unsafe { hv::raw_of_table_ref(&t).v_elem_ptr(0) } as usize;
    let mut seen = [false; N];
    let mut it = t.iter_hash(hk);
    let mut steps = 0;
    while steps < N + 1 {
        match it.next() {
            None => break,
            Some(v) => {
                let idx = base - (v as *const u8 as usize);
                assert!(idx < N && st.c[idx] < 0x80 && !seen[idx]);
                seen[idx] = true;
            }
        }
        steps += 1;
    }
    assert!(steps <= N);
    assert!(it.next().is_none());
    let mut i = 0;
    while i < N {
        if st.c[i] < 0x80 && h[st.e[i] as usize] == hk {
            assert!(seen[i]);
        }
        i += 1;
    }
    core::mem::forget(t);
}
