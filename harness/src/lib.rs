#![allow(dead_code, unused_imports, unused_variables, unused_mut, clippy::all)]
//! Harness crate: symbolic step harnesses over the real hashbrown code (see /verif/DESIGN.md).
//! Generic harness bodies live in the cXX modules; `instances.rs` (generated from
//! /verif/harnesses.py by check.py) instantiates them as #[kani::proof] functions.
#[cfg(kani)]
pub mod sym;
#[cfg(kani)]
pub mod c01;
#[cfg(kani)]
pub mod c04;
#[cfg(kani)]
pub mod c05;
#[cfg(kani)]
pub mod c06;
#[cfg(kani)]
pub mod c02;
#[cfg(kani)]
pub mod c03;
#[cfg(kani)]
pub mod c07;
#[cfg(kani)]
pub mod c08;
#[cfg(kani)]
pub mod c09;
#[cfg(kani)]
pub mod c10;
#[cfg(kani)]
pub mod c11;
#[cfg(kani)]
pub mod c12;
#[cfg(kani)]
pub mod c14;
#[cfg(kani)]
pub mod c15;
#[cfg(kani)]
pub mod c17;
#[cfg(kani)]
pub mod c18;
#[cfg(kani)]
pub mod c19;
#[cfg(kani)]
pub mod c20;
#[cfg(kani)]
pub mod instances;
#[cfg(kani)]
pub use sym::SYM;
