//! C15 — multi-key mutable borrows never alias. Kani ends a path at panic!, so an assertion placed
//! after the call states "returns => ..."; the `duplicate keys found` panic is an expected outcome
//! for colliding requests (allow_fail in harnesses.py) and must be unreachable for requests that
//! resolve to distinct entries.
use crate::sym::*;
use hashbrown::verif as hv;
use hashbrown::HashTable;

type T = u32;

fn slot_of(base: usize, p: *const T) -> usize {
    (base - p as usize) / core::mem::size_of::<T>()
}

/// mode 0: lawful eq, arbitrary ids (duplicates allowed -> may panic);
/// mode 1: lawful eq, pairwise distinct ids (must not panic: no allow_fail on the instance);
/// mode 2: sloppy eq — every eq call answers arbitrarily (may match several entries).
pub fn table_many<const N: usize, const NK: usize>(mode: u8) {
    let h: [u64; K] = any();
    let (mut t, st) = crate::c06::mk_table::<N>(SYM, SYM, &h, InvKind::Full);
    let ks: [u8; NK] = any();
    let mut hashes = [0u64; NK];
    let mut j = 0;
    while j < NK {
        assume((ks[j] as usize) < K);
        hashes[j] = h[ks[j] as usize];
        if mode == 2 {
            hashes[j] = any();
        }
        j += 1;
    }
    if mode == 1 {
        let mut a = 0;
        while a < NK {
            let mut b = a + 1;
            while b < NK {
                assume(ks[a] != ks[b]);
                b += 1;
            }
            a += 1;
        }
    }
    let base = unsafe { hv::raw_of_table_ref(&t).v_elem_ptr(0) } as usize;
    let rs = if mode == 2 {
        t.get_many_mut(hashes, |_, _| any())
    } else {
        t.get_many_mut(hashes, |i, v| v.id() == ks[i])
    };
    // ---- the call returned
    let mut slots = [usize::MAX; NK];
    let mut j = 0;
    for r in rs {
        match r {
            Some(v) => {
                let s = slot_of(base, v as *const T);
                assert!(s < N && st.c[s] < 0x80); // a live entry
                if mode != 2 {
                    assert!(v.id() == ks[j]); // its own entry
                }
                // pairwise distinct
                let mut a = 0;
                while a < j {
                    assert!(slots[a] != s);
                    a += 1;
                }
                slots[j] = s;
                *v = T::mk(st.e[s], 0xC0 + j as u8); // write a sentinel through the reference
            }
            None => {
                if mode != 2 {
                    assert!(st.mult(ks[j]) == 0); // absent keys give None
                }
            }
        }
        j += 1;
    }
    // writes landed in exactly the requested entries
    let post = snap::<T, _, N>(hv::raw_of_table_ref(&t));
    let mut i = 0;
    while i < N {
        assert!(post.c[i] == st.c[i]);
        if st.c[i] < 0x80 {
            let mut hit = NK;
            let mut a = 0;
            while a < NK {
                if slots[a] == i {
                    hit = a;
                }
                a += 1;
            }
            assert!(post.e[i] == st.e[i]);
            assert!(post.x[i] == if hit < NK { 0xC0 + hit as u8 } else { st.x[i] });
        }
        i += 1;
    }
    kani::cover!(NK >= 2 && slots[0] != usize::MAX && slots[NK - 1] != usize::MAX, "several present");
    core::mem::forget(t);
}

/// HashMap::get_many_mut / get_many_key_value_mut (kv = true)
pub fn map_many<const N: usize, const NK: usize>(distinct: bool, kv: bool) {
    let h: [u64; K] = any();
    let (mut m, st) = crate::c01::mk_map::<N>(SYM, SYM, &h);
    let ks: [u8; NK] = any();
    let mut j = 0;
    while j < NK {
        assume((ks[j] as usize) < K);
        j += 1;
    }
    if distinct {
        let mut a = 0;
        while a < NK {
            let mut b = a + 1;
            while b < NK {
                assume(ks[a] != ks[b]);
                b += 1;
            }
            a += 1;
        }
    }
    let keys: [Key; NK] = core::array::from_fn(|i| Key { id: ks[i], payload: 0 });
    let refs: [&Key; NK] = core::array::from_fn(|i| &keys[i]);
    let mut addrs = [0usize; NK];
    if kv {
        let rs = m.get_many_key_value_mut(refs);
        let mut j = 0;
        for r in rs {
            match r {
                Some((k, v)) => {
                    assert!(k.id == ks[j] && Some(*v) == st.lookup(ks[j]));
                    addrs[j] = v as *mut u8 as usize;
                    *v = 0xC0 + j as u8;
                }
                None => assert!(st.lookup(ks[j]).is_none()),
            }
            j += 1;
        }
    } else {
        let rs = m.get_many_mut(refs);
        let mut j = 0;
        for r in rs {
            match r {
                Some(v) => {
                    assert!(Some(*v) == st.lookup(ks[j]));
                    addrs[j] = v as *mut u8 as usize;
                    *v = 0xC0 + j as u8;
                }
                None => assert!(st.lookup(ks[j]).is_none()),
            }
            j += 1;
        }
    }
    let mut a = 0;
    while a < NK {
        let mut b = a + 1;
        while b < NK {
            assert!(addrs[a] == 0 || addrs[a] != addrs[b]);
            b += 1;
        }
        a += 1;
    }
    // contents afterwards
    let q = any_id();
    let mut want = st.lookup(q);
    let mut j = 0;
    while j < NK {
        if ks[j] == q && want.is_some() {
            want = Some(0xC0 + j as u8);
        }
        j += 1;
    }
    assert!(m.get(&Key { id: q, payload: 0 }).copied() == want);
    core::mem::forget(m);
}
