//! Symbolic pre-states (DESIGN.md section 3), snapshots of the real table memory, the
//! representation invariant evaluated on arrays, element types, hashers, ledgers.
use allocator_api2::alloc::{AllocError, Allocator, Global, Layout};
use core::hash::{BuildHasher, Hash, Hasher};
use core::ptr::NonNull;
use hashbrown::verif as hv;
use hashbrown::verif::RawTable;

pub const W: usize = hv::GROUP_WIDTH;
/// key universe: element ids 0..K
pub const K: usize = 8;
pub const EMPTY: u8 = 0xFF;
pub const DELETED: u8 = 0x80;
/// `Spec::items == SYM`: occupancy counts are symbolic (any split the invariant allows)
pub const SYM: usize = usize::MAX;

#[inline]
pub fn any<T: kani::Arbitrary>() -> T {
    kani::any()
}
#[inline]
pub fn assume(b: bool) {
    kani::assume(b)
}
pub fn any_id() -> u8 {
    let k: u8 = kani::any();
    kani::assume((k as usize) < K);
    k
}

/// capacity request that makes `with_capacity` choose exactly `n` buckets (checked by `fill`).
pub const fn capreq(n: usize) -> usize {
    if n <= 8 {
        n - 1
    } else {
        n / 8 * 7
    }
}

// ------------------------------------------------------------------ element types

pub trait Elem: Sized {
    fn mk(id: u8, aux: u8) -> Self;
    fn id(&self) -> u8;
    fn aux(&self) -> u8;
}
impl Elem for u32 {
    fn mk(id: u8, aux: u8) -> Self {
        id as u32 | (aux as u32) << 8
    }
    fn id(&self) -> u8 {
        *self as u8
    }
    fn aux(&self) -> u8 {
        (*self >> 8) as u8
    }
}
/// one-byte element (id only): keeps a 16-bucket table within 40 bytes
impl Elem for u8 {
    fn mk(id: u8, _aux: u8) -> Self {
        id
    }
    fn id(&self) -> u8 {
        *self
    }
    fn aux(&self) -> u8 {
        0
    }
}
impl Elem for u16 {
    fn mk(id: u8, aux: u8) -> Self {
        id as u16 | (aux as u16) << 8
    }
    fn id(&self) -> u8 {
        *self as u8
    }
    fn aux(&self) -> u8 {
        (*self >> 8) as u8
    }
}
impl Elem for u64 {
    fn mk(id: u8, aux: u8) -> Self {
        id as u64 | (aux as u64) << 8 | 0xABCD_0000_0000_0000
    }
    fn id(&self) -> u8 {
        *self as u8
    }
    fn aux(&self) -> u8 {
        (*self >> 8) as u8
    }
}
/// 24-byte element
impl Elem for [u64; 3] {
    fn mk(id: u8, aux: u8) -> Self {
        [id as u64, aux as u64, 0x5555_AAAA_5555_AAAA]
    }
    fn id(&self) -> u8 {
        self[0] as u8
    }
    fn aux(&self) -> u8 {
        self[1] as u8
    }
}
/// over-aligned element (alignment above both group widths)
#[repr(align(32))]
#[derive(Clone, Copy)]
pub struct Al32(pub u8, pub u8);
impl Elem for Al32 {
    fn mk(id: u8, aux: u8) -> Self {
        Al32(id, aux)
    }
    fn id(&self) -> u8 {
        self.0
    }
    fn aux(&self) -> u8 {
        self.1
    }
}
/// large element
#[derive(Clone, Copy)]
pub struct Big(pub [u8; 200]);
impl Elem for Big {
    fn mk(id: u8, aux: u8) -> Self {
        let mut b = [0u8; 200];
        b[0] = id;
        b[199] = aux;
        Big(b)
    }
    fn id(&self) -> u8 {
        self.0[0]
    }
    fn aux(&self) -> u8 {
        self.0[199]
    }
}

// --- map key / value: the key carries a payload byte that is NOT part of Eq/Hash, so that
// "keeps the originally stored key" is observable.
#[derive(Clone, Copy, Debug)]
pub struct Key {
    pub id: u8,
    pub payload: u8,
}
impl PartialEq for Key {
    fn eq(&self, o: &Key) -> bool {
        self.id == o.id
    }
}
impl Eq for Key {}
impl Hash for Key {
    fn hash<H: Hasher>(&self, s: &mut H) {
        s.write_u8(self.id)
    }
}
/// borrowed/equivalent form of a key: same hash, equivalent by id
#[derive(Clone, Copy)]
pub struct KeyRef(pub u8);
impl Hash for KeyRef {
    fn hash<H: Hasher>(&self, s: &mut H) {
        s.write_u8(self.0)
    }
}
impl hashbrown::Equivalent<Key> for KeyRef {
    fn equivalent(&self, k: &Key) -> bool {
        self.0 == k.id
    }
}
impl From<&KeyRef> for Key {
    fn from(r: &KeyRef) -> Key {
        Key { id: r.0, payload: 0xEE }
    }
}
impl Elem for (Key, u8) {
    fn mk(id: u8, aux: u8) -> Self {
        (Key { id, payload: aux ^ 0x5A }, aux)
    }
    fn id(&self) -> u8 {
        self.0.id
    }
    fn aux(&self) -> u8 {
        self.1
    }
}
impl Elem for (Key, ()) {
    fn mk(id: u8, aux: u8) -> Self {
        (Key { id, payload: aux }, ())
    }
    fn id(&self) -> u8 {
        self.0.id
    }
    fn aux(&self) -> u8 {
        self.0.payload
    }
}
impl Elem for () {
    fn mk(_: u8, _: u8) -> Self {}
    fn id(&self) -> u8 {
        0
    }
    fn aux(&self) -> u8 {
        0
    }
}

// ------------------------------------------------------------------ table-driven hasher

/// BuildHasher whose hash function is an arbitrary (symbolic) table over key ids.
#[derive(Clone, Copy)]
pub struct TabHasher {
    pub h: [u64; K],
}
pub struct TH {
    h: [u64; K],
    s: u64,
}
impl BuildHasher for TabHasher {
    type Hasher = TH;
    fn build_hasher(&self) -> TH {
        TH { h: self.h, s: 0 }
    }
}
impl Hasher for TH {
    fn write(&mut self, _b: &[u8]) {
        unreachable!()
    }
    fn write_u8(&mut self, x: u8) {
        self.s = self.h[(x as usize) % K];
    }
    fn finish(&self) -> u64 {
        self.s
    }
}

// ------------------------------------------------------------------ drop ledger

pub static mut DROPS: [u8; K] = [0; K];
pub static mut CLONES: [u8; K] = [0; K];
/// Element with drop glue: dropping increments the ledger cell of its id; a second drop of the
/// same id is an assertion failure.
pub struct D {
    pub id: u8,
    pub aux: u8,
}
impl Drop for D {
    fn drop(&mut self) {
        unsafe {
            let i = (self.id as usize) % K;
            assert!(DROPS[i] == 0, "element dropped twice");
            DROPS[i] += 1;
        }
    }
}
impl Elem for D {
    fn mk(id: u8, aux: u8) -> Self {
        D { id, aux }
    }
    fn id(&self) -> u8 {
        self.id
    }
    fn aux(&self) -> u8 {
        self.aux
    }
}
pub fn drops(id: u8) -> u8 {
    unsafe { DROPS[id as usize % K] }
}
pub fn reset_ledger() {
    unsafe {
        DROPS = [0; K];
        CLONES = [0; K];
    }
}
/// caller takes ownership of an element handed out by the collection
pub fn take(d: D) -> (u8, u8) {
    let r = (d.id, d.aux);
    core::mem::forget(d);
    r
}

// ------------------------------------------------------------------ ledger allocator

pub static mut A_ALLOCS: usize = 0;
pub static mut A_FREES: usize = 0;
pub static mut A_LIVE: usize = 0;
pub static mut A_LIVE_BYTES: usize = 0;
pub static mut A_LAST: (usize, usize, usize) = (0, 0, 0); // ptr, size, align of last live block
pub static mut A_FAIL_AT: usize = usize::MAX; // refuse the j-th request (0-based)
pub static mut A_REFUSED: (usize, usize) = (0, 0); // size, align of the refused request
pub static mut A_REFUSALS: usize = 0;

#[derive(Clone, Copy, Default)]
pub struct LedgerAlloc;
unsafe impl Allocator for LedgerAlloc {
    fn allocate(&self, l: Layout) -> Result<NonNull<[u8]>, AllocError> {
        unsafe {
            // every request must be a valid layout
            assert!(l.align().is_power_of_two());
            assert!(l.size() <= isize::MAX as usize - (l.align() - 1));
            if A_ALLOCS + A_REFUSALS == A_FAIL_AT {
                A_REFUSED = (l.size(), l.align());
                A_REFUSALS += 1;
                return Err(AllocError);
            }
            let r = Global.allocate(l);
            if let Ok(p) = &r {
                A_ALLOCS += 1;
                A_LIVE += 1;
                A_LIVE_BYTES += l.size();
                A_LAST = (p.as_ptr() as *mut u8 as usize, l.size(), l.align());
            }
            r
        }
    }
    unsafe fn deallocate(&self, p: NonNull<u8>, l: Layout) {
        assert!(A_LIVE > 0, "deallocate without live block");
        A_FREES += 1;
        A_LIVE -= 1;
        assert!(A_LIVE_BYTES >= l.size());
        A_LIVE_BYTES -= l.size();
        Global.deallocate(p, l)
    }
}
pub fn reset_alloc() {
    unsafe {
        A_ALLOCS = 0;
        A_FREES = 0;
        A_LIVE = 0;
        A_LIVE_BYTES = 0;
        A_FAIL_AT = usize::MAX;
        A_REFUSALS = 0;
    }
}

// ------------------------------------------------------------------ emulated panics (DESIGN 5)

/// A callback "panics": real panic in replay builds, emulation flag under the model checker.
pub fn fail_now() {
    #[cfg(feature = "realpanic")]
    panic!("injected callback panic");
    #[cfg(not(feature = "realpanic"))]
    hv::set_unwinding(true);
}
/// Runs `f`; returns true iff a callback panicked inside it.
pub fn guarded<F: FnOnce()>(f: F) -> bool {
    #[cfg(feature = "realpanic")]
    {
        extern crate std;
        return std::panic::catch_unwind(std::panic::AssertUnwindSafe(f)).is_err();
    }
    #[cfg(not(feature = "realpanic"))]
    {
        f();
        let p = hv::unwinding();
        hv::set_unwinding(false);
        p
    }
}

// ------------------------------------------------------------------ pre-state

#[derive(Clone, Copy, PartialEq, Eq)]
pub enum InvKind {
    /// clauses 1-5: tags match hashes, probe chains not cut
    Full,
    /// clauses 1-3 only: no relation between elements, tags and hashes
    Safe,
}

#[derive(Clone, Copy)]
pub struct Spec<'a> {
    pub items: usize,
    pub deleted: usize,
    pub kind: InvKind,
    pub h: &'a [u64; K],
    /// element ids pairwise distinct (maps / sets)
    pub distinct: bool,
    /// element id == slot index (iterators): requires N <= 256
    pub id_is_slot: bool,
    /// concrete occupancy pattern (bit i of .0: slot i FULL, of .1: slot i DELETED, else EMPTY);
    /// tags, elements and hashes stay symbolic. Used where a fully symbolic pattern does not
    /// finish (in-place rehash at two groups); the patterns used are listed per instance.
    pub layout: Option<(u64, u64)>,
    /// with `layout`: ids (= rank among the FULL slots) and tags are concrete as well; `h` must
    /// then come from `hashes_with_tags` (concrete 7 tag bits per id, symbolic position bits)
    pub concrete_tags: Option<u8>,
}

/// tag assigned to id `k` under tag mode `m`: 0 = pairwise distinct, 1 = all equal (full tag
/// collision), 2 = two classes
pub fn tag_of_id(m: u8, k: usize) -> u8 {
    if m == 0 {
        (k as u8) * 9 + 1
    } else if m == 1 {
        0x2A
    } else {
        0x10 + (k as u8 & 1)
    }
}
/// hash table with concrete tag bits (mode m) and symbolic position bits
pub fn hashes_with_tags(m: u8) -> [u64; K] {
    let low: [u64; K] = kani::any();
    let mut h = [0u64; K];
    let mut k = 0;
    while k < K {
        h[k] = ((tag_of_id(m, k) as u64) << 57) | (low[k] >> 7);
        k += 1;
    }
    h
}

/// Array image of a table state.
#[derive(Clone, Copy)]
pub struct St<const N: usize> {
    pub c: [u8; N],
    pub e: [u8; N],
    pub x: [u8; N],
    pub items: usize,
    pub growth_left: usize,
    pub mirror_ok: bool,
}

impl<const N: usize> St<N> {
    pub fn full(&self, i: usize) -> bool {
        self.c[i] < 0x80
    }
    pub fn count_full(&self) -> usize {
        let mut n = 0;
        let mut i = 0;
        while i < N {
            if self.c[i] < 0x80 {
                n += 1;
            }
            i += 1;
        }
        n
    }
    pub fn count(&self, b: u8) -> usize {
        let mut n = 0;
        let mut i = 0;
        while i < N {
            if self.c[i] == b {
                n += 1;
            }
            i += 1;
        }
        n
    }
    /// number of stored elements with this id
    pub fn mult(&self, id: u8) -> usize {
        let mut n = 0;
        let mut i = 0;
        while i < N {
            if self.c[i] < 0x80 && self.e[i] == id {
                n += 1;
            }
            i += 1;
        }
        n
    }
    /// aux of the (first) stored element with this id
    pub fn lookup(&self, id: u8) -> Option<u8> {
        let mut r = None;
        let mut i = N;
        while i > 0 {
            i -= 1;
            if self.c[i] < 0x80 && self.e[i] == id {
                r = Some(self.x[i]);
            }
        }
        r
    }
    /// number of stored elements with (id, aux)
    pub fn mult2(&self, id: u8, aux: u8) -> usize {
        let mut n = 0;
        let mut i = 0;
        while i < N {
            if self.c[i] < 0x80 && self.e[i] == id && self.x[i] == aux {
                n += 1;
            }
            i += 1;
        }
        n
    }
}

pub fn real_capacity(n: usize) -> usize {
    hv::v_bucket_mask_to_capacity(n - 1)
}

/// `has_empty[p]`: the group window starting at p contains an EMPTY byte (N >= W only).
fn window_has_empty<const N: usize>(c: &[u8; N]) -> [bool; N] {
    let mut r = [false; N];
    let mut p = 0;
    while p < N {
        let mut g = 0;
        while g < W {
            if c[(p + g) & (N - 1)] == EMPTY {
                r[p] = true;
            }
            g += 1;
        }
        p += 1;
    }
    r
}

/// Clause 4: the probe sequence of `hh` reaches a window containing slot `i` before it meets a
/// window containing EMPTY.
fn chain_ok<const N: usize>(he: &[bool; N], i: usize, hh: u64) -> bool {
    if N <= W {
        return true; // the first window covers the whole table
    }
    let mask = N - 1;
    let groups = N / W;
    let mut pos = (hh as usize) & mask;
    let mut stride = 0;
    let mut j = 0;
    let mut reached = false;
    let mut ok = true;
    while j < groups {
        if (i.wrapping_sub(pos) & mask) < W {
            reached = true;
        }
        if !reached && he[pos] {
            ok = false;
        }
        stride += W;
        pos = (pos + stride) & mask;
        j += 1;
    }
    ok && reached
}

/// Representation invariant on the array image (DESIGN.md section 3). `exact` additionally demands
/// growth_left + items + #DELETED == capacity(N) (always true in the implementation today; only
/// assumed of pre-states and asserted where a property needs it).
pub fn inv<const N: usize>(s: &St<N>, kind: InvKind, h: &[u64; K], distinct: bool, exact: bool) -> bool {
    let mut ok = s.mirror_ok;
    let mut full = 0usize;
    let mut del = 0usize;
    let mut emp = 0usize;
    let he = if N > W && kind == InvKind::Full { window_has_empty(&s.c) } else { [false; N] };
    let mut seen = [false; K];
    let mut i = 0;
    while i < N {
        let b = s.c[i];
        if b < 0x80 {
            full += 1;
            let id = s.e[i] as usize;
            // ids index the hash table / the distinctness bitmap only in these modes; with
            // Inv_safe and `id_is_slot` the id is the slot index and may exceed K
            let id_used = kind == InvKind::Full || distinct;
            if !id_used {
                // nothing to relate
            } else if id >= K {
                ok = false;
            } else {
                if kind == InvKind::Full {
                    let hh = h[id];
                    if (hh >> 57) as u8 != b {
                        ok = false;
                    }
                    if !chain_ok::<N>(&he, i, hh) {
                        ok = false;
                    }
                }
                if distinct {
                    if seen[id] {
                        ok = false;
                    }
                    seen[id] = true;
                }
            }
        } else if b == DELETED {
            del += 1;
            if N <= W {
                ok = false; // tables of at most one group never hold a tombstone
            }
        } else if b == EMPTY {
            emp += 1;
        } else {
            ok = false;
        }
        i += 1;
    }
    if s.items != full {
        ok = false;
    }
    if s.growth_left + 1 > emp {
        ok = false;
    }
    if exact && s.growth_left + full + del != real_capacity(N) {
        ok = false;
    }
    ok
}

/// Overwrites a freshly allocated N-bucket table with an arbitrary state satisfying the invariant
/// (concrete counts, symbolic layout / tags / elements / hashes). Returns its array image.
pub fn fill<E: Elem, A: Allocator, const N: usize>(raw: &mut RawTable<E, A>, sp: Spec) -> St<N> {
    assert!(raw.v_bucket_mask() + 1 == N);
    let cap = real_capacity(N);
    let mut c: [u8; N] = kani::any();
    let mut e: [u8; N] = kani::any();
    let x: [u8; N] = kani::any();
    if let Some((fm, dm)) = sp.layout {
        let mut i = 0;
        let mut rank = 0usize;
        while i < N {
            if (fm >> i) & 1 == 1 {
                if let Some(m) = sp.concrete_tags {
                    e[i] = (rank % K) as u8;
                    c[i] = tag_of_id(m, rank % K);
                    rank += 1;
                } else {
                    kani::assume(c[i] < 0x80);
                }
            } else if (dm >> i) & 1 == 1 {
                c[i] = DELETED;
            } else {
                c[i] = EMPTY;
            }
            i += 1;
        }
    }
    if sp.id_is_slot {
        let mut i = 0;
        while i < N {
            e[i] = i as u8;
            i += 1;
        }
    }
    // counts: concrete when the instance fixes them (so that the resize policy of the call under
    // test is decided statically), otherwise whatever the symbolic control bytes say
    let mut st = St { c, e, x, items: 0, growth_left: 0, mirror_ok: true };
    let (items, deleted) = if sp.items == SYM {
        (st.count_full(), st.count(DELETED))
    } else {
        (sp.items, sp.deleted)
    };
    kani::assume(items + deleted <= cap);
    let gl = cap - items - deleted;
    st.items = items;
    st.growth_left = gl;
    kani::assume(inv::<N>(&st, sp.kind, sp.h, sp.distinct && !sp.id_is_slot, true));
    if sp.items != SYM {
        kani::assume(st.count(DELETED) == sp.deleted);
    }
    let ctrl = raw.v_ctrl_ptr();
    let mut i = 0;
    while i < N {
        unsafe {
            *ctrl.add(i) = c[i];
            let i2 = (i.wrapping_sub(W) & (N - 1)) + W;
            *ctrl.add(i2) = c[i];
            if c[i] < 0x80 {
                raw.v_elem_ptr(i).write(E::mk(e[i], x[i]));
            }
        }
        i += 1;
    }
    unsafe { raw.v_set_counts(items, gl) };
    st
}

/// Reads the real table memory (control bytes incl. the trailing mirror, elements of FULL slots,
/// counters) into an array image. The table must have N buckets (asserted by the caller through
/// `buckets_of`).
pub fn snap<E: Elem, A: Allocator, const N: usize>(raw: &RawTable<E, A>) -> St<N> {
    let mut st = St { c: [0; N], e: [0; N], x: [0; N], items: raw.v_items(), growth_left: raw.v_growth_left(), mirror_ok: true };
    if raw.v_bucket_mask() + 1 != N {
        st.mirror_ok = false;
        return st;
    }
    let ctrl = raw.v_ctrl_ptr();
    let mut i = 0;
    while i < N {
        unsafe {
            let b = *ctrl.add(i);
            st.c[i] = b;
            let i2 = (i.wrapping_sub(W) & (N - 1)) + W;
            if *ctrl.add(i2) != b {
                st.mirror_ok = false;
            }
            if b < 0x80 {
                let p = raw.v_elem_ptr(i);
                st.e[i] = (*p).id();
                st.x[i] = (*p).aux();
            }
        }
        i += 1;
    }
    if N < W {
        // bytes N..W are never written and stay EMPTY
        let mut q = N;
        while q < W {
            if unsafe { *ctrl.add(q) } != EMPTY {
                st.mirror_ok = false;
            }
            q += 1;
        }
    }
    st
}

pub fn buckets_of<E, A: Allocator>(raw: &RawTable<E, A>) -> usize {
    raw.v_bucket_mask() + 1
}
