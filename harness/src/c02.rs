//! C02 — memory safety of the safe API across element layouts and leaked guards. The deciding
//! checks are CBMC's own (dereference validity, same-object pointer arithmetic, alignment,
//! overflow, unreachable_unchecked, hashbrown's debug assertions) on every instruction executed,
//! plus assertions that whatever is handed out targets a live slot.
use crate::sym::*;
use hashbrown::verif as hv;
use hashbrown::HashTable;

static ZH: [u64; K] = [0; K];

/// Structural operations over an arbitrary element layout E (Inv pre-state, N buckets):
/// op 0 find + insert_unique (no growth), 1 find_entry + remove, 2 iterate (iter, iter_mut),
/// 3 drain half then drop, 4 clone + drop both, 5 into_iter half, 6 insert at full load (grows to N2),
/// 7 retain, 8 shrink_to(0-ish)
pub fn layout_ops<E: Elem + Clone, const N: usize, const N2: usize>(items: usize, op: u8) {
    let h: [u64; K] = any();
    let mut t: HashTable<E> = HashTable::with_capacity(capreq(N));
    let st = fill::<E, _, N>(hv::raw_of_table(&mut t), Spec { items, deleted: 0, kind: InvKind::Full, h: &h, distinct: true, id_is_slot: false, layout: None, concrete_tags: None });
    let k = any_id();
    let aux: u8 = any();
    if op == 0 || op == 6 {
        let r = t.find(h[k as usize], |v| v.id() == k);
        assert!(r.is_some() == (st.mult(k) > 0));
        if let Some(v) = r {
            assert!(st.lookup(k) == Some(v.aux())); // reads the live element, not a neighbour
        }
        let o = t.insert_unique(h[k as usize], E::mk(k, aux), |v| h[v.id() as usize]);
        assert!(o.get().id() == k && o.get().aux() == aux);
        let raw = hv::raw_of_table_ref(&t);
        assert!(buckets_of(raw) == if op == 6 { N2 } else { N });
        if op == 0 {
            let post = snap::<E, _, N>(raw);
            assert!(inv::<N>(&post, InvKind::Full, &h, false, false));
            assert!(post.mult2(k, aux) >= 1);
            let q = any_id();
            assume(q != k);
            assert!(post.lookup(q) == st.lookup(q)); // neighbours intact
        } else {
            let post = snap::<E, _, N2>(raw);
            assert!(inv::<N2>(&post, InvKind::Full, &h, false, false));
            let q = any_id();
            assume(q != k);
            assert!(post.lookup(q) == st.lookup(q));
        }
    } else if op == 1 {
        if let Ok(o) = t.find_entry(h[k as usize], |v| v.id() == k) {
            let (v, _) = o.remove();
            assert!(v.id() == k && Some(v.aux()) == st.lookup(k));
        }
        let post = snap::<E, _, N>(hv::raw_of_table_ref(&t));
        assert!(inv::<N>(&post, InvKind::Full, &h, true, false));
        let q = any_id();
        assert!(post.lookup(q) == if q == k { None } else { st.lookup(q) });
    } else if op == 2 {
        let mut n = 0;
        for v in t.iter() {
            assert!(st.lookup(v.id()) == Some(v.aux()));
            n += 1;
        }
        assert!(n == items);
        for v in t.iter_mut() {
            let id = v.id();
            *v = E::mk(id, 0x3C);
        }
        let post = snap::<E, _, N>(hv::raw_of_table_ref(&t));
        let q = any_id();
        assert!(post.lookup(q) == st.lookup(q).map(|_| E::mk(q, 0x3C).aux()));
    } else if op == 3 {
        {
            let mut d = t.drain();
            if let Some(v) = d.next() {
                assert!(st.lookup(v.id()) == Some(v.aux()));
            }
        }
        assert!(t.len() == 0);
        t.insert_unique(h[k as usize], E::mk(k, aux), |v| h[v.id() as usize]);
        assert!(t.len() == 1);
    } else if op == 4 {
        let c = t.clone();
        assert!(c.len() == items);
        let r = c.find(h[k as usize], |v| v.id() == k);
        assert!(r.map(|v| v.aux()) == st.lookup(k));
        drop(c);
    } else if op == 5 {
        let mut it = t.into_iter();
        if let Some(v) = it.next() {
            assert!(st.lookup(v.id()) == Some(v.aux()));
        }
        drop(it);
        return;
    } else if op == 7 {
        let p: [bool; K] = any();
        t.retain(|v| p[v.id() as usize]);
        let post = snap::<E, _, N>(hv::raw_of_table_ref(&t));
        assert!(inv::<N>(&post, InvKind::Full, &h, true, false));
        let q = any_id();
        assert!(post.lookup(q) == if p[q as usize] { st.lookup(q) } else { None });
    } else {
        t.shrink_to(0, |v| h[v.id() as usize]);
        assert!(t.len() == items);
        let r = t.find(h[k as usize], |v| v.id() == k);
        assert!(r.map(|v| v.aux()) == st.lookup(k));
    }
    drop(t); // block freed with its own layout (CBMC checks the deallocation)
}

/// Zero-sized elements: buckets are index+1 pseudo-pointers. The table is a multiset of ().
pub fn zst_ops<const N: usize>(op: u8) {
    let mut t: HashTable<()> = HashTable::with_capacity(capreq(N));
    let st = fill::<(), _, N>(hv::raw_of_table(&mut t), Spec { items: SYM, deleted: SYM, kind: InvKind::Safe, h: &ZH, distinct: false, id_is_slot: false, layout: None, concrete_tags: None });
    let items = st.items;
    if op == 0 {
        let mut n = 0;
        for _ in t.iter() {
            n += 1;
        }
        assert!(n == items);
        let n2 = t.iter().fold(0, |a, _| a + 1);
        assert!(n2 == items);
        let mut it = t.iter();
        let c = it.clone();
        assert!(c.len() == items);
        let _ = it.next();
        assert!(it.len() + 1 == items || items == 0);
    } else if op == 1 {
        // remove whatever a lookup finds: the control byte of THAT bucket must be the one cleared
        let hsh: u64 = any();
        if let Ok(o) = t.find_entry(hsh, |_| true) {
            o.remove();
            assert!(t.len() == items - 1);
        }
        let post = snap::<(), _, N>(hv::raw_of_table_ref(&t));
        assert!(inv::<N>(&post, InvKind::Safe, &ZH, false, false));
        assert!(t.len() == post.count_full());
        // exactly one FULL byte changed, everything else as before
        let mut changed = 0;
        let mut i = 0;
        while i < N {
            if post.c[i] != st.c[i] {
                changed += 1;
                assert!(st.c[i] < 0x80 && post.c[i] >= 0x80);
            }
            i += 1;
        }
        assert!(changed == items - t.len());
    } else if op == 2 {
        let p: bool = any();
        let mut calls = 0;
        t.retain(|_| {
            calls += 1;
            p
        });
        assert!(calls == items);
        assert!(t.len() == if p { items } else { 0 });
        let post = snap::<(), _, N>(hv::raw_of_table_ref(&t));
        assert!(t.len() == post.count_full());
    } else if op == 3 {
        let mut n = 0;
        for _ in t.extract_if(|_| true) {
            n += 1;
        }
        assert!(n == items && t.len() == 0);
        let post = snap::<(), _, N>(hv::raw_of_table_ref(&t));
        assert!(post.count_full() == 0);
    } else if op == 4 {
        {
            let mut d = t.drain();
            let _ = d.next();
        }
        assert!(t.len() == 0);
        t.insert_unique(any(), (), |_| 0);
        assert!(t.len() == 1);
    } else {
        // (instances of op 5 fix the counts: see harnesses.py)
        assume(st.growth_left > 0);
        t.insert_unique(any(), (), |_| any());
        assert!(t.len() == items + 1);
        let post = snap::<(), _, N>(hv::raw_of_table_ref(&t));
        assert!(inv::<N>(&post, InvKind::Safe, &ZH, false, false));
        assert!(post.count_full() == items + 1);
        let n = t.into_iter().count();
        assert!(n == items + 1);
        return;
    }
    drop(t);
}

/// Leaked guards: the object is forgotten part-way; the collection stays valid (possibly emptied),
/// can be used and is dropped normally. which: 0 iter_mut, 1 drain, 2 extract_if, 3 into_iter
/// (table gone with it), 4 OccupiedEntry, 5 VacantEntry
pub fn leaked_guard<const N: usize>(which: u8) {
    reset_ledger();
    let h: [u64; K] = any();
    let mut t: HashTable<D> = HashTable::with_capacity(capreq(N));
    // entry() reserves first: concrete counts keep its resize paths out of the way
    let (ci, cd) = if which == 5 { (3, 0) } else { (SYM, SYM) };
    let st = fill::<D, _, N>(hv::raw_of_table(&mut t), Spec { items: ci, deleted: cd, kind: InvKind::Full, h: &h, distinct: true, id_is_slot: false, layout: None, concrete_tags: None });
    let k = any_id();
    let steps: usize = any();
    assume(steps <= 2);
    let mut held = [0u8; K];
    if which == 0 {
        let mut it = t.iter_mut();
        let mut j = 0;
        while j < 2 {
            if j < steps {
                let _ = it.next();
            }
            j += 1;
        }
        core::mem::forget(it);
    } else if which == 1 {
        let mut d = t.drain();
        let mut j = 0;
        while j < 2 {
            if j < steps {
                if let Some(v) = d.next() {
                    let (id, _) = take(v);
                    held[id as usize] += 1;
                }
            }
            j += 1;
        }
        core::mem::forget(d);
        // a leaked drain leaves an emptied (but valid) collection; the rest is leaked, not freed twice
        assert!(t.len() == 0);
        let mut n = 0;
        for _ in t.iter() {
            n += 1;
        }
        assert!(n == 0);
        assert!(t.find(h[k as usize], |v| v.id == k).is_none());
        t.insert_unique(h[k as usize], D { id: k, aux: 9 }, |v| h[v.id as usize]);
        assert!(t.len() == 1);
        core::mem::forget(t);
        return;
    } else if which == 2 {
        let mut e = t.extract_if(|_| true);
        let mut j = 0;
        while j < 2 {
            if j < steps {
                if let Some(v) = e.next() {
                    let (id, _) = take(v);
                    held[id as usize] += 1;
                }
            }
            j += 1;
        }
        core::mem::forget(e);
    } else if which == 3 {
        let mut it = t.into_iter();
        if let Some(v) = it.next() {
            let (id, _) = take(v);
            held[id as usize] += 1;
        }
        core::mem::forget(it);
        return;
    } else if which == 4 {
        if let Ok(o) = t.find_entry(h[k as usize], |v| v.id == k) {
            core::mem::forget(o);
        }
    } else {
        match t.entry(h[k as usize], |v| v.id == k, |v| h[v.id as usize]) {
            hashbrown::hash_table::Entry::Vacant(v) => core::mem::forget(v),
            hashbrown::hash_table::Entry::Occupied(o) => core::mem::forget(o),
        }
    }
    // still a valid collection whose len() matches its contents
    let raw = hv::raw_of_table_ref(&t);
    assert!(buckets_of(raw) == N);
    let post = snap::<D, _, N>(raw);
    assert!(inv::<N>(&post, InvKind::Full, &h, true, false));
    assert!(t.len() == post.count_full());
    let q = any_id();
    assert!(post.mult(q) as u8 + held[q as usize] == st.mult(q) as u8);
    assert!(t.find(h[q as usize], |v| v.id == q).is_some() == (post.mult(q) > 0));
    drop(t);
    assert!(drops(q) + held[q as usize] == st.mult(q) as u8);
}
