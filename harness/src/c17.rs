//! C17 — capacity / layout arithmetic over all 64-bit inputs; probe sequence.
use hashbrown::verif as hv;
const W: usize = hv::GROUP_WIDTH;

/// capacity_to_buckets: total, power of two >= 4, cap <= capacity(b) < b; `None` only for huge caps.
pub fn cap_to_buckets_all() {
    let cap: usize = kani::any();
    kani::assume(cap != 0);
    let size: usize = kani::any();
    let ctrl_align: usize = kani::any();
    match hv::v_capacity_to_buckets(cap, size, ctrl_align) {
        None => {
            // overflow may only be reported for requests that cannot be served anyway
            assert!(cap > (usize::MAX >> 4));
        }
        Some(b) => {
            assert!(b.is_power_of_two());
            assert!(b >= 4);
            let c = hv::v_bucket_mask_to_capacity(b - 1);
            assert!(c >= cap);
            assert!(c < b); // one slot always stays empty
        }
    }
    kani::cover!(cap < 15 && size == 0, "small-table branch");
    kani::cover!(cap > 1 << 40, "large branch");
}

/// monotone in the request: a larger request never gets fewer buckets (same layout).
pub fn cap_to_buckets_monotone() {
    let c1: usize = kani::any();
    let c2: usize = kani::any();
    kani::assume(c1 != 0 && c1 <= c2);
    let size: usize = kani::any();
    let al: usize = kani::any();
    if let (Some(b1), Some(b2)) = (
        hv::v_capacity_to_buckets(c1, size, al),
        hv::v_capacity_to_buckets(c2, size, al),
    ) {
        assert!(b1 <= b2);
    }
}

/// bucket_mask_to_capacity for every power-of-two bucket count: 0 < capacity < buckets (for
/// buckets >= 2), at least 7/8 for large tables.
pub fn mask_to_capacity_all() {
    let k: u32 = kani::any();
    kani::assume(k < 64);
    let buckets = 1usize << k;
    let c = hv::v_bucket_mask_to_capacity(buckets - 1);
    assert!(c < buckets);
    if buckets >= 2 {
        assert!(c >= 1);
    }
    if buckets >= 8 {
        assert!(c >= buckets / 8 * 7);
    }
}

/// calculate_layout_for: all element sizes, all power-of-two control alignments, all 2^k buckets.
pub fn layout_all() {
    let size: usize = kani::any();
    let a: u32 = kani::any();
    kani::assume(a < 32);
    let ctrl_align = 1usize << a;
    let k: u32 = kani::any();
    kani::assume(k < 64);
    let buckets = 1usize << k;
    let data = (size as u128) * (buckets as u128);
    let data_padded = (data + (ctrl_align as u128 - 1)) & !(ctrl_align as u128 - 1);
    let total = data_padded + buckets as u128 + W as u128;
    let limit = (isize::MAX as usize - (ctrl_align - 1)) as u128;
    match hv::v_calculate_layout_for(size, ctrl_align, buckets) {
        None => {
            // refusal only when the block really is not representable
            assert!(total > limit);
        }
        Some((lsize, lalign, off)) => {
            assert!(lalign == ctrl_align);
            assert!(off % ctrl_align == 0);
            assert!(off as u128 >= data);
            assert!(off as u128 - data < ctrl_align as u128);
            assert!(lsize as u128 == off as u128 + buckets as u128 + W as u128);
            assert!(lsize as u128 <= limit);
            assert!(total == lsize as u128);
        }
    }
    kani::cover!(size == 24 && k == 5, "ordinary layout");
}

#[repr(align(32))]
pub struct A32([u8; 32]);
#[repr(align(64))]
pub struct A64([u8; 64]);

/// TableLayout::new::<T>() for the element layouts used elsewhere.
pub fn table_layout_types() {
    fn chk<T>() {
        let (s, a) = hv::v_table_layout::<T>();
        assert!(s == core::mem::size_of::<T>());
        let al = core::mem::align_of::<T>();
        assert!(a == if al > W { al } else { W });
        assert!(a % al == 0 && a % W == 0);
    }
    chk::<()>();
    chk::<u8>();
    chk::<u16>();
    chk::<u32>();
    chk::<u64>();
    chk::<[u64; 3]>();
    chk::<[u8; 200]>();
    chk::<A32>();
    chk::<A64>();
    chk::<(u8, u8)>();
}

/// One step of the real ProbeSeq::move_next from any state on the closed-form trajectory:
/// stride == W*j, then stride' == W*(j+1), pos' == (pos + stride') & mask, no overflow, and the
/// implementation's own debug assertion holds while j < number of groups.
pub fn probe_step_all() {
    let k: u32 = kani::any();
    kani::assume(k < 60);
    let buckets = 1usize << k;
    let mask = buckets - 1;
    let groups = if buckets <= W { 1 } else { buckets / W };
    let j: usize = kani::any();
    kani::assume(j < groups);
    let stride = W * j;
    let pos: usize = kani::any();
    kani::assume(pos <= mask);
    let (p2, s2) = hv::v_probe_next(pos, stride, mask);
    assert!(s2 == W * (j + 1));
    assert!(p2 == (pos.wrapping_add(s2)) & mask);
    assert!(p2 <= mask);
}

/// The real probe sequence, iterated: for a table of G = 2^g groups every group-aligned start
/// position visits each of the G groups exactly once in G steps (bitset of visited groups).
pub fn probe_visits_all<const G: usize>() {
    let buckets = G * W;
    let mask = buckets - 1;
    let h: u64 = kani::any();
    let mut pos = hv::v_probe_start(h, mask);
    assert!(pos <= mask);
    let off = pos % W;
    let mut stride = 0usize;
    let mut seen = [false; G];
    let mut i = 0;
    while i < G {
        // windows [pos, pos+W) are all congruent to `off` mod W, so pos / W identifies the window
        assert!(pos % W == off);
        let g = pos / W;
        assert!(!seen[g]);
        seen[g] = true;
        if i + 1 < G {
            let (p, s) = hv::v_probe_next(pos, stride, mask);
            pos = p;
            stride = s;
        }
        i += 1;
    }
    let mut j = 0;
    while j < G {
        assert!(seen[j]);
        j += 1;
    }
}
