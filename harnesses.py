"""Harness instance table: the single source of truth for what check.py builds and runs.

Each instance: name (becomes a #[kani::proof] fn), props, call (Rust expression in crate hbverif),
be (back-ends: g8 = portable 8-byte groups, s16 = SSE2 16-byte groups), tier, unwind (default bound
for loops without an unwindset entry), unwindset {function-name substring[@line]: bound},
timeout (s), bounds (free text for the evidence file)."""

ANY = ["s16"]          # back-end independent code: run once
BOTH = ["g8", "s16"]


def I(name, props, call, be=BOTH, tier="quick", unwind=2, unwindset=None, timeout=900, bounds="",
      cost=1, **kw):
    d = dict(name=name, props=props if isinstance(props, list) else [props], call=call, be=be, tier=tier,
             unwind=unwind, unwindset=unwindset or {}, timeout=timeout, bounds=bounds, cost=cost)
    d.update(kw)
    return d


def instances():
    L = []
    # ------------------------------------------------------------------ C17 arithmetic / probe
    L += [
        I("c17_cap_to_buckets_all", ["C17", "C08"], "c17::cap_to_buckets_all()",
          bounds="all 2^64 capacities x all sizes x all ctrl_align; no input bound"),
        I("c17_cap_to_buckets_monotone", ["C17", "C08"], "c17::cap_to_buckets_monotone()",
          bounds="all pairs of 64-bit capacities, all sizes"),
        I("c17_mask_to_capacity_all", ["C17"], "c17::mask_to_capacity_all()", bounds="all 2^k, k<64"),
        I("c17_layout_all", ["C17", "C12"], "c17::layout_all()", timeout=1200,
          bounds="all 64-bit sizes x ctrl_align 2^0..2^31 x buckets 2^0..2^63"),
        I("c17_table_layout_types", ["C17", "C02"], "c17::table_layout_types()",
          bounds="element types (), u8, u16, u32, u64, [u64;3], [u8;200], align32, align64, (u8,u8)"),
        I("c17_probe_step_all", ["C17", "C13"], "c17::probe_step_all()",
          bounds="all tables 2^k buckets k<60, all positions, all j < groups"),
    ]
    for g, tier in ((1, "quick"), (2, "quick"), (4, "quick"), (8, "quick"), (16, "thorough"), (64, "thorough")):
        L.append(I("c17_probe_visits_g%d" % g, ["C17", "C13"], "c17::probe_visits_all::<%d>()" % g,
                   unwind=g + 2, tier=tier, bounds="%d groups, all 64-bit hashes as start" % g))
    return L


def triangular_query(m):
    w = m + 2
    return {
        "name": "triangular_injective_mod_2^%d" % m, "props": ["C17", "C13"], "logic": "QF_BV", "bits": w,
        "script": """(set-logic QF_BV)
(declare-const i (_ BitVec {w}))
(declare-const j (_ BitVec {w}))
(assert (bvult i j))
(assert (bvult j (_ bv{n} {w})))
(define-fun t2 ((x (_ BitVec {w}))) (_ BitVec {w}) (bvmul x (bvadd x (_ bv1 {w}))))
(assert (= ((_ extract {m} 0) (t2 i)) ((_ extract {m} 0) (t2 j))))
(check-sat)
""".format(w=w, n=2 ** m, m=m),
    }


def smt_queries(tier):
    """Closed-form lemma: T(i) = i(i+1)/2 is injective mod 2^m on 0..2^m, i.e. the triangular probe
    sequence (step harness c17_probe_step_all ties the real code to this closed form) visits every
    group exactly once. 2T(x) = x(x+1) is compared mod 2^(m+1)."""
    ms = list(range(1, 13)) if tier == "quick" else list(range(1, 17))
    qs = []
    for m in ms:
        q = triangular_query(m)
        q["timeout"] = 120 if tier == "quick" else 600
        qs.append(q)
    if tier == "thorough":
        for m in (18, 20):
            q = triangular_query(m)
            q["timeout"] = 1800
            q["optional"] = True
            qs.append(q)
    return qs
