"""Harness instance table: the single source of truth for what check.py builds and runs.

Each instance: name (becomes a #[kani::proof] fn), props, call (Rust expression in crate hbverif),
be (back-ends: g8 = portable 8-byte groups, s16 = SSE2 16-byte groups), tier, unwind (default bound
for loops without an unwindset entry), unwindset {function-name substring[@line]: bound},
timeout (s), bounds (free text for the evidence file)."""

ANY = ["s16"]          # back-end independent code: run once
BOTH = ["g8", "s16"]


def I(name, props, call, be=BOTH, tier="quick", unwind=2, unwindset=None, timeout=900, bounds="",
      cost=1, **kw):
    d = dict(name=name, props=props if isinstance(props, list) else [props], call=call, be=be, tier=tier,
             unwind=unwind, unwindset=unwindset or {}, timeout=timeout, bounds=bounds, cost=cost)
    d.update({k: v for k, v in kw.items() if not (k == "be_quick" and v is None)})
    return d


WIDTH = {"g8": 8, "s16": 16}


def uw_one(n, be, items=None, n2=None, extra=None):
    """Loop bounds derived from the code (DESIGN section 2, 'Unwinding'): a probe loop visits each
    group at most once, a bit loop at most WIDTH lanes, table walks at most N (or N/WIDTH groups).
    bound = max iterations + 1."""
    w = WIDTH[be]
    nn = max(n, n2 or 0)
    g = max(1, nn // w)
    it = (items if items is not None else nn) + 2
    wl = min(w, nn)  # lanes of a window that can hold a real bucket: a table smaller than a group has only N
    d = {
        # hashbrown probe loops: outer = groups, inner = lanes
        "RawTableInner::find_inner#0": g + 1, "RawTableInner::find_inner#1": wl + 1,
        "RawTableInner::find_or_find_insert_slot_inner#0": g + 1,
        "RawTableInner::find_or_find_insert_slot_inner#1": wl + 1,
        "RawTableInner::find_insert_slot": g + 1,
        "RawIterHashInner": g + 2,
        "RawTableInner::prepare_rehash_in_place": g + 1,
        "RawTableInner::rehash_in_place": nn + 1,
        # label .0 = inner swap chain (<= items iterations), .1 = outer walk over the N buckets
        "RawTableInner::rehash_in_place.0": it, "RawTableInner::rehash_in_place.1": nn + 1,
        "RawTableInner::rehash_in_place::{closure#0}.0": nn + 1,  # the panic guard walks all buckets
        "RawTableInner::resize_inner": it,
        "FullBucketsIndices::next_impl": g + 1,
        "FullBucketsIndices": g + 1,
        "RawIterRange*::next_impl": g + 2, "RawIterRange*as std::iter::Iterator>::next": g + 2,
        # fold_impl: CBMC sees its two nested loops as one (same head): groups + elements iterations
        "RawIterRange*fold_impl": g + nn + 2,
        "RawTableInner::drop_elements": it, "RawIter*::drop_elements": it,
        "clone_from_impl": nn + 1,
        "swap_nonoverlapping": 34,
        # harness helpers (sym.rs)
        "sym::fill": nn + 1, "sym::snap#0": nn + 1, "sym::snap#1": w + 1, "sym::inv": nn + 1,
        "sym::window_has_empty#0": nn + 1, "sym::window_has_empty#1": w + 1, "sym::chain_ok": g + 1,
        "sym::St": nn + 1,
    }
    # loops of the harness bodies themselves: over N slots or the K key ids
    for m in range(1, 21):
        d["c%02d::" % m] = max(nn, 8) + 2
    if n2 is None:
        # no growth / rehash expected in this instance: these loops only exist on paths that are
        # infeasible for the concrete counts; keep their unwinding minimal (an unwinding assertion
        # reports it if such a path turns out to be feasible after all)
        for k in ("RawTableInner::rehash_in_place", "RawTableInner::rehash_in_place.0", "RawTableInner::rehash_in_place.1",
                  "RawTableInner::rehash_in_place::{closure#0}.0",
                  "RawTableInner::prepare_rehash_in_place", "RawTableInner::resize_inner"):
            d[k] = 2
    if extra:
        d.update(extra)
    return d


def uw(n, items=None, n2=None, extra=None):
    return {be: uw_one(n, be, items, n2, extra) for be in WIDTH}


def instances():
    L = []
    # ------------------------------------------------------------------ C17 arithmetic / probe
    L += [
        I("c17_cap_to_buckets_all", ["C17", "C08"], "c17::cap_to_buckets_all()",
          bounds="all 2^64 capacities x all sizes x all ctrl_align; no input bound"),
        I("c17_cap_to_buckets_monotone", ["C17", "C08"], "c17::cap_to_buckets_monotone()",
          bounds="all pairs of 64-bit capacities, all sizes"),
        I("c17_mask_to_capacity_all", ["C17"], "c17::mask_to_capacity_all()", bounds="all 2^k, k<64"),
        I("c17_layout_all", ["C17", "C12"], "c17::layout_all()", timeout=1200,
          bounds="all 64-bit sizes x ctrl_align 2^0..2^31 x buckets 2^0..2^63"),
        I("c17_table_layout_types", ["C17", "C02"], "c17::table_layout_types()",
          bounds="element types (), u8, u16, u32, u64, [u64;3], [u8;200], align32, align64, (u8,u8)"),
        I("c17_probe_step_all", ["C17", "C13"], "c17::probe_step_all()",
          bounds="all tables 2^k buckets k<60, all positions, all j < groups"),
    ]
    for g, tier in ((1, "quick"), (2, "quick"), (4, "quick"), (8, "quick"), (16, "thorough"), (64, "thorough")):
        L.append(I("c17_probe_visits_g%d" % g, ["C17", "C13"], "c17::probe_visits_all::<%d>()" % g,
                   unwind=g + 2, tier=tier, bounds="%d groups, all 64-bit hashes as start" % g))
    # ------------------------------------------------------------------ C18 scanner primitives
    for n in ("match_tag_all", "match_special_all", "match_full_order_all", "convert_all", "static_empty_and_consts"):
        L.append(I("c18_" + n, ["C18"], "c18::%s()" % n, unwind=18, timeout=900,
                   bounds="every group of WIDTH bytes (2^64 / 2^128), every tag; no input bound"))
    # ------------------------------------------------------------------ C06 HashTable steps
    G8, S16 = ["g8"], ["s16"]
    def T(name, call, n, be=BOTH, tier="quick", n2=None, items=None, props=("C06",), unwind=None, **kw):
        kw.setdefault("bounds", "N=%d buckets%s" % (n, (" -> %d" % n2) if n2 else ""))
        L.append(I(name, list(props), call, be=be, tier=tier, unwind=unwind or (max(n, n2 or 0, 8) + 2),
                   unwindset=uw(n, items=items, n2=n2), **kw))
    C6 = ("C06", "C02", "C18")
    T("c06_find_n4", "c06::find::<4>(SYM, SYM)", 4, props=C6, share_quick=('C18', 'C02'))
    T("c06_find_n8", "c06::find::<8>(SYM, SYM)", 8, props=C6, share_quick=('C18',))
    T("c06_find_n16", "c06::find::<16>(SYM, SYM)", 16, be=G8, props=C6)
    T("c06_find_n16s", "c06::find::<16>(SYM, SYM)", 16, be=S16, tier="thorough", props=C6)
    T("c06_find_n32", "c06::find::<32>(SYM, SYM)", 32, tier="thorough", props=C6)
    T("c06_insert_n4", "c06::insert::<4, 4>(2, 0)", 4, items=2, props=C6, share_quick=('C18', 'C02'))
    T("c06_insert_n4_grow", "c06::insert_full::<4, 8>(3, 0)", 4, n2=8, items=3, props=C6, covers="some", be_quick=G8)
    T("c06_insert_n8", "c06::insert::<8, 8>(4, 0)", 8, items=4, props=C6, be_quick=G8)
    T("c06_insert_n8_grow", "c06::insert_full::<8, 16>(7, 0)", 8, n2=16, items=7, props=C6, tier="thorough", timeout=7200, covers="some")
    # 6 elements + 4 tombstones: enough non-EMPTY bytes for a completely full first probe window
    # (incl. tombstones) with the element of interest displaced behind it
    T("c06_insert_n16", "c06::insert::<16, 16>(6, 4)", 16, be=G8, items=6, props=C6)
    T("c06_entry_n16", "c06::entry::<16, 16>(6, 4)", 16, be=G8, items=6, timeout=1800)
    T("c06_insert_n16_grow", "c06::insert_full::<16, 32>(8, 6)", 16, be=G8, n2=32, items=8, props=C6, tier="thorough", timeout=3600)
    T("c06_remove_n4", "c06::remove_reinsert::<4>(SYM, SYM, false)", 4, props=C6, covers="some")
    T("c06_remove_n8", "c06::remove_reinsert::<8>(SYM, SYM, false)", 8, props=C6, covers="some", share_quick=('C18',))
    T("c06_remove_reinsert_n8", "c06::remove_reinsert::<8>(SYM, SYM, true)", 8, props=C6, covers="some", be_quick=G8)
    T("c06_remove_n16", "c06::remove_reinsert::<16>(SYM, SYM, false)", 16, be=G8, props=C6, timeout=1800)
    T("c06_remove_reinsert_n16", "c06::remove_reinsert::<16>(SYM, SYM, true)", 16, be=G8, props=C6, timeout=1800, covers="some")
    T("c06_remove_n32s", "c06::remove_reinsert::<32>(SYM, SYM, false)", 32, be=S16, props=C6, tier="thorough", timeout=3600)
    T("c06_entry_n4", "c06::entry::<4, 4>(2, 0)", 4, items=2, be_quick=G8)
    T("c06_entry_n4_grow", "c06::entry::<4, 8>(3, 0)", 4, n2=8, items=3, covers="some", be_quick=G8)
    T("c06_entry_n8", "c06::entry::<8, 8>(4, 0)", 8, items=4, be_quick=G8)
    T("c06_reserve_n8_grow", "c06::reserve::<8, 16>(3, 0, 5)", 8, n2=16, items=3, be_quick=G8)
    # len + additional crosses a size boundary that additional alone does not (2 + 6 > 7)
    T("c06_reserve_n4_cross", "c06::reserve::<4, 16>(2, 0, 6)", 4, n2=16, items=2, be=G8)
    # in-place rehash with element moves needs >= 2 groups (N=16 on g8); even with concrete occupancy,
    # ids and tags it takes > 25 min / > 14 GB: thorough tier only, generous limits (DESIGN section 12)
    # in-place rehash through reserve(1) on a tombstone-saturated two-group table: concrete occupancy, ids, tags;
    # symbolic position bits. 1 element: stay-or-move decision (is_in_same_group) and move into an EMPTY slot;
    # 2 elements: also the swap with a not-yet-rehashed element. 3 elements: thorough tier (below).
    T("c06_rehash_ct8_b1", "c06::rehash_layout_ct8::<16>(0x0200, 0xFDF3, 0)", 16, n2=16, be=G8, items=1, timeout=1800, mem_gb=20, props=("C06", "C13", "C01", "C05"), cost=50)
    T("c06_rehash_ct8_b1t", "c06::rehash_layout_ct8::<16>(0x0001, 0x3FFE, 1)", 16, n2=16, be=G8, items=1, timeout=7200, mem_gb=20, props=("C06", "C13"), cost=50, tier="thorough")
    T("c06_rehash_ct8_b1_try", "c06::rehash_layout_ct8_try::<16>(0x0200, 0xFDF3, 0)", 16, n2=16, be=G8, items=1, timeout=1800, mem_gb=20, props=("C06", "C12"), cost=50)
    # 2 elements (swap with a not-yet-rehashed element): ~15 min, over the 900 s budget of a quick check -> thorough tier
    T("c06_rehash_ct8_c2", "c06::rehash_layout_ct8::<16>(0x0202, 0xFDF1, 0)", 16, n2=16, be=G8, items=2, timeout=5400, mem_gb=24, props=("C06", "C05", "C01", "C09", "C15"), cost=100, tier="thorough")
    T("c06_rehash_ct8_a", "c06::rehash_layout_ct8::<16>(0x0302, 0xF0FD & !0x0302, 0)", 16, be=G8, items=3, timeout=10800, mem_gb=44, tier="thorough", cost=100)
    T("c06_shrink_n8_to4", "c06::shrink_to::<8, 4>(2, 0, 0)", 8, n2=4, items=2, be_quick=G8)
    T("c06_shrink_n8_empty", "c06::shrink_to::<8, 1>(0, 0, 0)", 8, items=0)
    T("c06_shrink_n8_empty_m3", "c06::shrink_to::<8, 4>(0, 0, 3)", 8, n2=4, items=0)
    T("c06_shrink_n8_noop", "c06::shrink_to::<8, 8>(5, 0, 2)", 8, items=5)
    T("c06_clear_n8", "c06::clear::<8>()", 8)
    T("c06_iter_hash_n4", "c06::iter_hash::<4>()", 4, covers="some")
    T("c06_iter_hash_n8", "c06::iter_hash::<8>()", 8, covers="some", be_quick=G8)
    T("c06_iter_hash_n16", "c06::iter_hash::<16>()", 16, be=G8, covers="some", timeout=14400, tier="thorough", mem_gb=40)
    # window 0..8 completely non-EMPTY with a tombstone at 7, one more element at 8 (displaced if it hashes to 0..1)
    T("c06_iter_hash_lay_n16", "c06::iter_hash_layout::<16>(0x017F, 0x0080, 2)", 16, be=G8, items=8, timeout=1800)
    T("c06_iter_hash_lay2_n16", "c06::iter_hash_layout::<16>(0x8177, 0x0088, 1)", 16, be=G8, items=8, timeout=1800)
    for c in (0, 1, 3, 4, 7, 8, 14, 15, 28):
        T("c06_base_cap%d" % c, "c06::base_case::<%d>()" % c, 32, tier="quick" if c in (0, 3, 14) else "thorough", props=("C06", "C01", "C08"))
    # ------------------------------------------------------------------ C09 iterators
    C9 = ("C09", "C02", "C18")
    for n, be, tier in ((4, BOTH, "quick"), (8, G8, "quick"), (16, G8, "quick"), (16, S16, "thorough"), (32, S16, "thorough"), (32, G8, "thorough"), (64, S16, "thorough")):
        sfx = "" if be == BOTH else ("_" + be[0])
        for mode, mn in ((0, "next"), (1, "fold"), (2, "clone")):
            T("c09_iter_%s_n%d%s" % (mn, n, sfx), "c09::table_iter::<%d>(%d)" % (n, mode), n, be=be, tier=tier if not (n == 16 and mode == 0) else "thorough", props=C9, covers="some", timeout=2400 if tier == "quick" else 14400, mem_gb=20 if tier == "quick" else 30,
              share_quick=("C18", "C02") if (n, mode) in ((4, 0), (4, 1)) else ())
    T("c09_iter_mut_n8", "c09::table_iter_mut::<8>()", 8, props=C9)
    T("c09_iter_mut_n16", "c09::table_iter_mut::<16>()", 16, props=C9, be=G8, timeout=2400, mem_gb=20)
    T("c09_into_iter_n8", "c09::table_into_iter::<8>()", 8, props=C9 + ("C03",), share_quick=("C02", "C03"))
    T("c09_into_iter_n16", "c09::table_into_iter::<16>()", 16, props=C9 + ("C03",), be=G8, timeout=2400, mem_gb=20)
    T("c09_drain_n8", "c09::table_drain::<8>()", 8, props=C9 + ("C10",), share_quick=("C10", "C02", "C08"))
    T("c09_drain_n16", "c09::table_drain::<16>()", 16, props=C9 + ("C10",), be=G8, share_quick=("C10",), timeout=2400, mem_gb=20)
    T("c09_defaults_empty", "c09::defaults_empty()", 4, props=C9, be=ANY)
    for w, wn in enumerate(("iter", "keys", "values", "iter_mut", "values_mut", "into_iter", "into_keys", "into_values", "drain")):
        T("c09_map_%s_n8" % wn, "c09::map_iters::<8>(%d)" % w, 8, props=C9, be=G8 if w not in (0, 5) else BOTH)
    for w, wn in enumerate(("iter", "into_iter", "drain")):
        T("c09_set_%s_n8" % wn, "c09::set_iters::<8>(%d)" % w, 8, props=C9, be=G8)
    # ------------------------------------------------------------------ C01 HashMap steps
    C1 = ("C01", "C18")
    T("c01_lookup_n8", "c01::lookup::<8>()", 8, props=C1, share_quick=('C18',), be_quick=G8)
    T("c01_lookup_n16", "c01::lookup::<16>()", 16, be=G8, props=C1, tier="thorough", timeout=7200)
    T("c01_lookup_n4", "c01::lookup::<4>()", 4, be=G8, props=C1)
    T("c01_insert_n4", "c01::insert::<4, 4>(2, 0)", 4, items=2, be=G8, props=C1)
    T("c01_insert_n4_full", "c01::insert::<4, 8>(3, 0)", 4, n2=8, items=3, be=G8, props=C1, covers="some")
    T("c01_insert_n8", "c01::insert::<8, 8>(4, 0)", 8, items=4, props=C1)
    T("c01_insert_n16", "c01::insert::<16, 16>(6, 4)", 16, items=6, be=G8, props=C1, timeout=1800)
    T("c01_remove_n8", "c01::remove::<8>(false)", 8, props=C1)
    T("c01_remove_entry_n8", "c01::remove::<8>(true)", 8, be=G8, props=C1)
    T("c01_remove_n16", "c01::remove::<16>(false)", 16, be=G8, props=C1, timeout=7200, tier="thorough")
    T("c01_try_insert_n8", "c01::try_insert::<8, 8>(4, 0)", 8, items=4, be=G8, props=C1, tier="thorough", timeout=10800, mem_gb=40)
    for form, fn_ in enumerate(("or_insert", "and_modify", "entry_ref", "occ_vac_insert", "or_insert_with_key", "or_default")):
        # HashMap::entry(K) followed by VacantEntry::insert does not finish under CBMC (the merged value
        # of the Entry enum makes every access through its table pointer a case split, DESIGN section 12):
        # thorough tier only; the same insert path is decided in the quick tier through entry_ref (form 2),
        # raw_entry_mut and rustc_entry (c14_*), and entry()'s Occupied paths through c14_map_occ_*
        T("c01_entry_%s_n8" % fn_, "c01::entry::<8, 8>(4, 0, %d)" % form, 8, items=4, be=G8 if form != 2 else BOTH, props=("C01", "C14", "C18"),
          share_quick=("C14",) if form == 2 else (), tier="quick" if form == 2 else "thorough", timeout=900 if form == 2 else 10800, mem_gb=14 if form == 2 else 40)
    T("c01_entry_ref_n4_full", "c01::entry::<4, 8>(3, 0, 2)", 4, n2=8, items=3, be=G8, props=("C01", "C14"), covers="some", share_quick=("C14",))
    T("c01_entry_or_insert_n4_full", "c01::entry::<4, 8>(3, 0, 0)", 4, n2=8, items=3, be=G8, props=("C01", "C14"), covers="some", tier="thorough", timeout=10800, mem_gb=40)
    T("c01_retain_n8", "c01::retain::<8>()", 8, props=("C01", "C10", "C18"), share_quick=('C18', 'C10'), be_quick=G8)
    T("c01_retain_n16", "c01::retain::<16>()", 16, be=G8, props=("C01", "C10"), timeout=10800, tier="thorough", mem_gb=30)
    T("c01_clear_n8", "c01::clear_reserve_shrink::<8, 8>(SYM, SYM, 0, 0)", 8, be=G8, props=C1)
    T("c01_reserve_n8", "c01::clear_reserve_shrink::<8, 16>(2, 0, 1, 6)", 8, n2=16, items=2, be=G8, props=C1)
    T("c01_shrink_to_n16", "c01::clear_reserve_shrink::<16, 8>(2, 0, 2, 5)", 16, n2=8, items=2, be=G8, props=C1)
    T("c01_shrink_to_fit_n8", "c01::clear_reserve_shrink::<8, 4>(2, 0, 3, 0)", 8, n2=4, items=2, be=G8, props=C1)
    T("c01_extend2_n8", "c01::extend2::<8, 8>(3, 0)", 8, items=3, be=G8, props=C1, timeout=10800, tier="thorough", mem_gb=40)
    T("c01_base_case", "c01::base_case()", 4, n2=4, items=1, be=G8, props=C1)
    # ------------------------------------------------------------------ C10 retain / extract_if / drain
    C10 = ("C10", "C18")
    T("c10_retain_n8", "c10::table_retain::<8>()", 8, props=C10, covers="some", be_quick=G8)
    T("c10_retain_n16", "c10::table_retain::<16>()", 16, be=G8, props=C10, timeout=14400, tier="thorough", mem_gb=44)
    T("c10_retain_n32s", "c10::table_retain::<32>()", 32, be=S16, props=C10, tier="thorough", timeout=3600)
    T("c10_extract_if_n4", "c10::table_extract_if::<4>()", 4, props=C10, covers="some", be_quick=G8)
    T("c10_extract_if_n8", "c10::table_extract_if::<8>()", 8, props=C10, covers="some", tier="thorough", timeout=10800, mem_gb=40)
    T("c10_extract_if_n16", "c10::table_extract_if::<16>()", 16, be=G8, props=C10, timeout=14400, covers="some", tier="thorough", mem_gb=44)
    T("c10_map_extract_if_n4", "c10::map_extract_if::<4>()", 4, be=G8, props=C10)
    T("c10_map_extract_if_n8", "c10::map_extract_if::<8>()", 8, be=G8, props=C10, tier="thorough", timeout=10800, mem_gb=40)
    for w, wn in enumerate(("retain", "extract_if", "drain")):
        nn = 4 if w == 1 else 8
        T("c10_set_%s_n%d" % (wn, nn), "c10::set_ops::<%d>(%d)" % (nn, w), nn, be=G8, props=("C10", "C07"), share_quick=("C07",) if w == 0 else (),
          tier="thorough" if w == 1 else "quick", timeout=10800 if w == 1 else 900, mem_gb=30 if w == 1 else 14)
    # ------------------------------------------------------------------ C02 layouts, ZST, leaked guards
    OPS = ("insert", "remove", "iterate", "drain", "clone", "into_iter", "insert_grow", "retain", "shrink")
    for ty, tn, quick_ops in (("u16", "u16", (0,)), ("u64", "u64", (1, 4)), ("[u64; 3]", "u64x3", (0, 6)), ("sym::Al32", "al32", (0, 1, 6)), ("sym::Big", "big200", (0, 5))):
        for op, on in enumerate(OPS):
            n, n2, items = (4, 8, 3) if op == 6 else (4, 4, 2)
            if ty == "u16" and True:
                pass
            T("c02_%s_%s_n4" % (tn, on), "c02::layout_ops::<%s, %d, %d>(%d, %d)" % (ty, n, n2, items, op), n, n2=n2 if op in (6, 8) else None, items=items,
              be=G8, props=("C02",), tier="quick" if op in quick_ops else "thorough", bounds="element type %s, N=4" % ty)
    T("c02_al32_insert_n4_s16", "c02::layout_ops::<sym::Al32, 4, 4>(2, 0)", 4, items=2, be=S16, props=("C02",))
    T("c02_u64x3_remove_n8_s16", "c02::layout_ops::<[u64; 3], 8, 8>(4, 1)", 8, items=4, be=S16, props=("C02",))
    for op, on in enumerate(("iterate", "remove", "retain", "extract_if", "drain", "insert_into_iter")):
        T("c02_zst_%s_n8" % on, "c02::zst_ops::<8>(%d)" % op, 8, be=G8, props=("C02", "C10" if op in (2, 3, 4) else "C09"),
          tier="thorough" if op == 5 else "quick", timeout=10800 if op == 5 else 900, mem_gb=30 if op == 5 else 14)
    T("c02_zst_remove_n16_s16", "c02::zst_ops::<16>(1)", 16, be=S16, props=("C02",))
    T("c02_zst_iterate_n16_s16", "c02::zst_ops::<16>(0)", 16, be=S16, props=("C02", "C09"), tier="thorough", timeout=10800, mem_gb=30)
    for w, wn in enumerate(("iter_mut", "drain", "extract_if", "into_iter", "occupied_entry", "vacant_entry")):
        T("c02_leak_%s_n8" % wn, "c02::leaked_guard::<8>(%d)" % w, 8, be=G8, props=("C02",))
    T("c02_leak_drain_n16", "c02::leaked_guard::<16>(1)", 16, be=G8, props=("C02",), tier="thorough")
    # ------------------------------------------------------------------ C03 drop / allocation ledger
    for op, on in enumerate(("drop", "remove", "clear", "retain", "extract_if", "drain", "into_iter", "shrink0", "remove_reinsert")):
        if on == "shrink0":
            continue
        nn = 4 if on == "extract_if" else 8
        T("c03_%s_n%d" % (on, nn), "c03::ledger_op::<%d>(%d)" % (nn, op), nn, be=G8, props=("C03", "C02"))
    T("c03_drop_n16", "c03::ledger_op::<16>(0)", 16, be=G8, props=("C03",))
    T("c03_drain_n16", "c03::ledger_op::<16>(5)", 16, be=G8, props=("C03", "C10", "C09"), timeout=7200, mem_gb=30, tier="thorough")
    T("c03_drain_n16_counts", "c03::drain_counts::<16>(4, 3, 1)", 16, items=4, be=G8, props=("C03", "C10", "C09"), timeout=1200, share_quick=("C10", "C09"))
    T("c03_map_drain_fold_n4", "c03::map_drain_fold::<4>(0)", 4, be=G8, props=("C03", "C10", "C09"), share_quick=("C10", "C09"), timeout=1800, mem_gb=20)
    T("c03_map_drain_fold_n8", "c03::map_drain_fold::<8>(1)", 8, be=G8, props=("C03", "C10", "C09"), tier="thorough", timeout=10800, mem_gb=40)
    T("c03_into_iter_n8s", "c03::ledger_op::<8>(6)", 8, be=S16, props=("C03",))
    T("c03_grow_n8", "c03::ledger_resize::<8, >(2, 0, 0, 6)".replace("<8, >", "<8>"), 8, n2=16, items=2, be=G8, props=("C03", "C08"))
    T("c03_shrink_n8", "c03::ledger_resize::<8>(2, 0, 1, 0)", 8, n2=4, items=2, be=G8, props=("C03", "C08"))
    T("c03_shrink_empty_n8", "c03::ledger_resize::<8>(0, 0, 1, 0)", 8, items=0, be=G8, props=("C03", "C08"))
    T("c03_insert_grow_n4", "c03::ledger_resize::<4>(3, 0, 2, 0)", 4, n2=8, items=3, be=G8, props=("C03",))
    T("c03_no_block_when_unused", "c03::no_block_when_unused()", 4, be=ANY, props=("C03", "C08"))
    # ------------------------------------------------------------------ C15 multi-key borrows
    # the documented panic of get_many_mut (Kani replaces the formatted message by a placeholder):
    # an assertion-class failure located in RawTable::get_many_mut itself, nothing else
    DUP = [r"^assertion\|hashbrown::[a-z_:]*RawTable::<[^|]*>::get_many_mut::<[^|]*\|(This is a placeholder message|duplicate keys found)"]
    T("c15_table_dup_n8_k2", "c15::table_many::<8, 2>(0)", 8, props=("C15",), allow_fail=DUP, covers="some")
    T("c15_table_dup_n8_k3", "c15::table_many::<8, 3>(0)", 8, be=G8, props=("C15",), allow_fail=DUP, covers="some")
    T("c15_table_distinct_n8_k3", "c15::table_many::<8, 3>(1)", 8, be=G8, props=("C15",), covers="some")
    T("c15_table_distinct_n8_k2", "c15::table_many::<8, 2>(1)", 8, be=S16, props=("C15",), covers="some")
    T("c15_table_sloppy_n8_k2", "c15::table_many::<8, 2>(2)", 8, props=("C15", "C05"), allow_fail=DUP, covers="some")
    T("c15_table_sloppy_n4_k3", "c15::table_many::<4, 3>(2)", 4, be=G8, props=("C15", "C05"), allow_fail=DUP, covers="some")
    T("c15_table_dup_n16_k2", "c15::table_many::<16, 2>(0)", 16, be=G8, props=("C15",), allow_fail=DUP, covers="some", timeout=1800)
    T("c15_table_k0_k1", "{ c15::table_many::<4, 0>(0); c15::table_many::<4, 1>(2) }", 4, be=G8, props=("C15",), covers="some")
    T("c15_table_dup_n8_k4", "c15::table_many::<8, 4>(0)", 8, be=G8, props=("C15",), allow_fail=DUP, covers="some", tier="thorough", timeout=3600)
    T("c15_map_dup_n8_k2", "c15::map_many::<8, 2>(false, false)", 8, be=G8, props=("C15",), allow_fail=DUP)
    T("c15_map_distinct_n8_k3", "c15::map_many::<8, 3>(true, false)", 8, be=G8, props=("C15",))
    T("c15_map_kv_dup_n8_k2", "c15::map_many::<8, 2>(false, true)", 8, be=G8, props=("C15",), allow_fail=DUP)
    T("c15_map_kv_distinct_n8_k2", "c15::map_many::<8, 2>(true, true)", 8, be=S16, props=("C15",))
    # ------------------------------------------------------------------ C12 try_reserve
    for ty, tn in (("()", "zst"), ("u8", "u8"), ("u32", "u32"), ("[u64; 3]", "u64x3"), ("sym::Al32", "al32"), ("c12::Huge", "huge61"), ("c12::Huge60", "huge60")):
        T("c12_overflow_all_%s" % tn, "c12::overflow_all::<%s>()" % ty, 4, props=("C12", "C17"), be=BOTH if tn in ("zst", "u32", "huge61") else G8,
          bounds="all 2^64 values of additional; element type %s" % ty, covers="some" if tn.startswith("huge") else "all")
    T("c12_fail_unchanged_n4_grow", "c12::fail_unchanged::<4, 8>(3, 0, 1)", 4, n2=8, items=3, be=G8, props=("C12",))
    T("c12_fail_unchanged_n8_grow", "c12::fail_unchanged::<8, 16>(2, 0, 6)", 8, n2=16, items=2, be=G8, props=("C12",))
    T("c12_fail_unchanged_n8_big", "c12::fail_unchanged::<8, 32>(2, 0, 20)", 8, n2=32, items=2, be=S16, props=("C12",))
    T("c12_fail_unchanged_n4_cross", "c12::fail_unchanged::<4, 16>(2, 0, 6)", 4, n2=16, items=2, be=G8, props=("C12",))
    T("c12_fail_unchanged_n8_noop", "c12::fail_unchanged::<8, 8>(3, 0, 4)", 8, items=3, be=G8, props=("C12",), covers="some")
    # ------------------------------------------------------------------ C08 / C13 capacity contract, churn
    T("c08_no_alloc_insert_n4", "c08::no_alloc_insert::<4>(2, 0)", 4, items=2, props=("C08", "C13"))
    T("c08_no_alloc_insert_n8", "c08::no_alloc_insert::<8>(6, 0)", 8, items=6, be=G8, props=("C08", "C13"))
    T("c08_no_alloc_insert_n16", "c08::no_alloc_insert::<16>(5, 8)", 16, items=5, be=G8, props=("C08", "C13"))
    for (n, it, m) in ((8, 2, 0), (8, 0, 0), (8, 0, 3), (8, 5, 2), (16, 2, 5), (16, 0, 7), (16, 9, 100)):
        n2 = {(8, 2, 0): 4, (16, 2, 5): 8}.get((n, it, m))
        T("c08_shrink_n%d_i%d_m%d" % (n, it, m), "c08::shrink_contract::<%d>(%d, 0, %d)" % (n, it, m), n, n2=n2, items=it, be=G8 if (n, it, m) != (8, 2, 0) else BOTH, props=("C08",))
    T("c13_growth_bound_all", "c08::growth_bound_all()", 4, props=("C13", "C08"), bounds="all tables 2^2..2^55 buckets, all item counts, all element sizes")
    # ------------------------------------------------------------------ C05 broken Hash/Eq
    for op, on in enumerate(("find", "remove", "insert", "entry", "retain", "iter_hash")):
        T("c05_%s_n8" % on, "c05::chaos::<8, 8>(3, 0, %d, 0)" % op, 8, items=3, props=("C05", "C02"), be=G8 if on in ("entry", "retain") else BOTH,
          be_quick=G8 if on in ("iter_hash", "remove") else None)
    T("c05_insert_n4_grow", "c05::chaos::<4, 8>(3, 0, 2, 0)", 4, n2=8, items=3, be=G8, props=("C05", "C02"))
    T("c05_reserve_n8_grow", "c05::chaos::<8, 16>(2, 0, 6, 6)", 8, n2=16, items=2, be=G8, props=("C05", "C02"))
    T("c05_find_n16", "c05::chaos::<16, 16>(4, 6, 0, 0)", 16, items=4, be=G8, props=("C05",))
    T("c05_remove_n16", "c05::chaos::<16, 16>(4, 6, 1, 0)", 16, items=4, be=G8, props=("C05",))
    T("c05_insert_n16", "c05::chaos::<16, 16>(4, 6, 2, 0)", 16, items=4, be=G8, props=("C05",))
    # ------------------------------------------------------------------ C04 panics
    T("c04_hasher_grow_nodrop_n4", "c04::hasher_panic_nodrop::<4, 8>(0b0111, 0, 1, 0)", 4, n2=8, items=3, props=("C04", "C02"), be=G8)
    T("c04_hasher_grow_nodrop_n8", "c04::hasher_panic_nodrop::<8, 16>(0b00010010, 0, 6, 1)", 8, n2=16, items=2, props=("C04", "C02"))
    T("c04_hasher_grow_drop_n8", "c04::hasher_panic_drop::<8, 16>(0b00100100, 0, 6, 0)", 8, n2=16, items=2, props=("C04", "C03"), be=G8)
    T("c04_rehash_hook_nodrop_n8", "c04::rehash_hook_panic::<8>(3, false)", 8, n2=8, items=3, be=G8, props=("C04", "C02"), timeout=7200, tier="thorough", mem_gb=30, covers="some")
    T("c04_rehash_hook_drop_n8", "c04::rehash_hook_panic::<8>(3, true)", 8, n2=8, items=3, be=G8, props=("C04", "C03"), timeout=7200, tier="thorough", mem_gb=30, covers="some")
    T("c04_rehash_hook_drop_n4", "c04::rehash_hook_panic::<4>(2, true)", 4, n2=4, items=2, be=G8, props=("C04", "C03"), timeout=1800, covers="some")
    T("c04_rehash_hook_nodrop_n4", "c04::rehash_hook_panic::<4>(2, false)", 4, n2=4, items=2, props=("C04", "C02"), timeout=1800, be_quick=G8, covers="some")
    for (nt, ns) in ((8, 8), (8, 4), (4, 8), (8, 1), (4, 4)):
        big = (nt, ns) in ((8, 8), (4, 8), (8, 4))
        T("c04_clone_from_panic_%d_%d" % (nt, ns), "c04::clone_from_panic::<%d, %d>()" % (nt, ns), max(nt, ns), be=G8, props=("C04", "C11", "C03"), covers="some" if ns == 1 else "all",
          tier="thorough" if big else "quick", timeout=10800 if big else 900, mem_gb=30 if big else 14)
    for w, wn in enumerate(("clear", "drop", "drain", "into_iter", "retain", "shrink0")):
        T("c04_drop_panic_%s_n8" % wn, "c04::drop_panic::<8>(%d)" % w, 8, be=G8, props=("C04", "C03"), covers="some")
    T("c04_drop_panic_clone_from_empty_n8", "c04::drop_panic_dispose::<8>(true)", 8, be=G8, props=("C04", "C03", "C11"))
    T("c04_predicate_validity_retain_n8", "c04::predicate_time_validity::<8>(false)", 8, be=G8, props=("C04",))
    T("c04_predicate_validity_extract_n4", "c04::predicate_time_validity::<4>(true)", 4, be=G8, props=("C04",), tier="thorough", timeout=10800, mem_gb=30)
    T("c04_predicate_validity_extract_n8", "c04::predicate_time_validity::<8>(true)", 8, be=G8, props=("C04",), tier="thorough", timeout=10800, mem_gb=30)
    T("c04_replace_entry_validity_n8", "c04::replace_entry_with_validity::<8>()", 8, be=G8, props=("C04", "C14"))
    # ------------------------------------------------------------------ C07 HashSet algebra
    for op, on in enumerate(("union", "intersection", "difference", "symdiff")):
        # next()-driven with size_hint at every step: 2 steps in the quick tier, to exhaustion in the thorough tier
        T("c07_%s_next2_n4_n4" % on, "c07::algebra::<4, 4>(2, 3, %d, 2)" % op, 4, be=G8, props=("C07",), unwind=7, timeout=1500 if op < 2 else 14400,
          tier="quick" if op < 2 else "thorough", mem_gb=14 if op < 2 else 40)
        T("c07_%s_n4_n4" % on, "c07::algebra::<4, 4>(2, 3, %d, 9)" % op, 4, be=G8, props=("C07",), unwind=7, timeout=14400, tier="thorough", mem_gb=40)
        T("c07_%s_n4_n4_rev" % on, "c07::algebra::<4, 4>(3, 1, %d, 9)" % op, 4, be=G8, props=("C07",), unwind=7, timeout=14400, tier="thorough", mem_gb=40)
        T("c07_%s_fold_n4_n4" % on, "c07::algebra_fold::<4, 4>(2, 3, %d)" % op, 4, be=G8, props=("C07",), unwind=7, timeout=1500)
        T("c07_%s_fold_n4_n4_rev" % on, "c07::algebra_fold::<4, 4>(3, 1, %d)" % op, 4, be=G8, props=("C07",), unwind=7, timeout=1500)
        T("c07_%s_fold_n8_n8" % on, "c07::algebra_fold::<8, 8>(3, 2, %d)" % op, 8, props=("C07",), be=S16 if op in (0, 1) else G8, timeout=1800 if op < 2 else 14400,
          tier="quick" if op < 2 else "thorough", mem_gb=14 if op < 2 else 40)
        T("c07_%s_n8_n8" % on, "c07::algebra::<8, 8>(3, 2, %d, 9)" % op, 8, props=("C07",), be=S16 if op in (0, 1) else G8, tier="thorough", timeout=14400, mem_gb=40)
    for w, wn in enumerate(("subset", "superset", "disjoint", "eq")):
        T("c07_pred_%s_n4_n4" % wn, "c07::predicates::<4, 4>(%d)" % w, 4, be=G8, props=("C07", "C11"), covers="some", unwind=7, timeout=1500)
        T("c07_pred_%s_n8_n4" % wn, "c07::predicates::<8, 4>(%d)" % w, 8, be=G8, props=("C07", "C11"), covers="some", tier="quick" if w == 0 else "thorough",
          timeout=1800 if w == 0 else 10800, mem_gb=20 if w == 0 else 30)
        T("c07_pred_%s_n8_n8" % wn, "c07::predicates::<8, 8>(%d)" % w, 8, be=S16, props=("C07", "C11"), covers="some", tier="thorough", timeout=10800, mem_gb=30)
    for op, on in enumerate(("or", "and", "xor", "sub")):
        # one element in B: a second insert would re-open every resize path (growth_left symbolic after the first)
        T("c07_assign_%s_n8_n4" % on, "c07::assign_ops::<8, 4>(2, 1, %d)" % op, 8, be=G8, props=("C07",), timeout=1500)
        T("c07_assign_%s_n8_n4_b3" % on, "c07::assign_ops::<8, 4>(2, 3, %d)" % op, 8, be=G8, props=("C07",), timeout=10800, tier="thorough", mem_gb=40)
        T("c07_assign_%s_n8_n4_big" % on, "c07::assign_ops::<8, 4>(4, 2, %d)" % op, 8, be=G8, props=("C07",), timeout=10800, tier="quick" if op == 3 else "thorough", mem_gb=14 if op == 3 else 40)
        T("c07_ref_%s_n4_n4" % on, "c07::ref_ops::<4, 4>(1, 1, %d)" % op, 8, n2=8, be=G8, props=("C07",), timeout=1800, tier="thorough")
    for op, on in enumerate(("insert", "replace", "take", "get_or_insert", "get_or_insert_with", "remove", "get_or_insert_with_nonequiv", "entry", "contains")):
        T("c07_elem_%s_n8" % on, "c07::elem_ops::<8, 8>(3, 0, %d)" % op, 8, items=3, be=BOTH if op in (1, 3) else G8, props=("C07",) + (("C14",) if on == "entry" else ()),
          allow_fail=[r"^assertion\|hashbrown::HashSet::<[^|]*>::get_or_insert_with::<[^|]*\|", r"^assertion\|hashbrown::set::HashSet::<[^|]*>::get_or_insert_with::<[^|]*\|"] if op == 6 else [],
          tier="thorough" if on == "entry" else "quick", timeout=10800 if on == "entry" else 900, mem_gb=40 if on == "entry" else 14)
    T("c07_elem_replace_n16", "c07::elem_ops::<16, 16>(6, 4, 1)", 16, items=6, be=G8, props=("C07",), timeout=1800)
    T("c07_elem_insert_n16", "c07::elem_ops::<16, 16>(6, 4, 0)", 16, items=6, be=G8, props=("C07",), timeout=7200, tier="thorough")
    T("c07_elem_replace_n4_full", "c07::elem_ops::<4, 8>(3, 0, 1)", 4, n2=8, items=3, be=G8, props=("C07",))
    # ------------------------------------------------------------------ C11 clone / clone_from / ==
    T("c11_clone_n8", "c11::clone_step::<8>(true)", 8, props=("C11", "C03"), be_quick=G8)
    T("c11_clone_n8_src_mut", "c11::clone_step::<8>(false)", 8, be=G8, props=("C11", "C03"), tier="thorough")
    T("c11_clone_n16_counts", "c11::clone_counts::<16>(3, 6)", 16, items=3, be=G8, props=("C11", "C08"), timeout=1800)
    T("c11_clone_n16", "c11::clone_step::<16>(true)", 16, be=G8, props=("C11",), timeout=10800, tier="thorough", mem_gb=30)
    for (nt, ns) in ((8, 8), (8, 4), (4, 8), (8, 1), (16, 8)):
        T("c11_clone_from_%d_%d" % (nt, ns), "c11::clone_from_step::<%d, %d>()" % (nt, ns), max(nt, ns), be=G8, props=("C11", "C03"),
          timeout=1800 if nt < 16 else 10800, tier="quick" if (nt < 16 and (nt, ns) != (8, 8)) else "thorough", mem_gb=14 if nt < 16 else 30)
    # 16-bucket target whose capacity() (1 element, 7 tombstones) equals that of the 8-bucket source
    T("c11_clone_from_16t_8", "c11::clone_from_counts::<16, 8>(1, 7, 2)", 16, n2=8, items=2, be=G8, props=("C11", "C03"), timeout=1800)
    T("c11_map_eq_n4_n4", "c11::map_eq::<4, 4>()", 4, be=G8, props=("C11",), covers="some", unwind=7, timeout=1500)
    T("c11_map_eq_n4_n8", "c11::map_eq::<4, 8>()", 8, be=G8, props=("C11",), covers="some", tier="thorough", timeout=10800, mem_gb=30)
    T("c11_map_eq_n8_n8", "c11::map_eq::<8, 8>()", 8, be=S16, props=("C11",), covers="some", tier="thorough", timeout=10800, mem_gb=30)
    T("c11_map_eq_n16_n8", "c11::map_eq::<16, 8>()", 16, be=G8, props=("C11",), covers="some", timeout=14400, tier="thorough", mem_gb=40)
    # ------------------------------------------------------------------ C14 entry APIs
    T("c14_raw_entry_ro_n8", "c14::raw_entry_ro::<8>()", 8, props=("C14",), be_quick=G8)
    for form, fn_ in enumerate(("or_insert", "nocheck_insert", "from_hash_insert_hashed", "insert_with_hasher", "remove_entry", "insert_key", "and_replace", "vacant_dropped")):
        T("c14_raw_mut_%s_n8" % fn_, "c14::raw_entry_mut::<8, 8>(4, 0, %d)" % form, 8, items=4, be=G8, props=("C14",))
    T("c14_raw_mut_or_insert_n4_full", "c14::raw_entry_mut::<4, 8>(3, 0, 0)", 4, n2=8, items=3, be=G8, props=("C14",), covers="some")
    T("c14_raw_mut_insert_hashed_n4_full", "c14::raw_entry_mut::<4, 8>(3, 0, 2)", 4, n2=8, items=3, be=G8, props=("C14",), covers="some")
    T("c14_raw_mut_with_hasher_n4_full", "c14::raw_entry_mut::<4, 8>(3, 0, 3)", 4, n2=8, items=3, be=G8, props=("C14",), covers="some")
    for form, fn_ in enumerate(("or_insert", "insert", "remove", "unused", "insert_entry", "and_modify_or_default")):
        T("c14_rustc_%s_n8" % fn_, "c14::rustc_entry::<8, 8>(4, 0, %d)" % form, 8, items=4, be=G8 if form else BOTH, props=("C14",))
    T("c14_rustc_or_insert_n4_full", "c14::rustc_entry::<4, 8>(3, 0, 0)", 4, n2=8, items=3, be=G8, props=("C14",))
    T("c14_rustc_unused_n4_full", "c14::rustc_entry::<4, 8>(3, 0, 3)", 4, n2=8, items=3, be=G8, props=("C14",))
    for form, fn_ in enumerate(("remove", "remove_entry", "replace_entry_with", "and_replace_entry_with", "vacant_unused")):
        T("c14_map_occ_%s_n8" % fn_, "c14::map_entry_occ::<8>(%d)" % form, 8, be=G8, props=("C14", "C01"))
    T("c14_map_occ_replace_n16", "c14::map_entry_occ::<16>(2)", 16, be=G8, props=("C14",), timeout=1800)
    # ------------------------------------------------------------------ C19 rayon (sequential core)
    for (n, be, tier) in ((16, G8, "quick"), (32, S16, "quick"), (32, G8, "thorough"), (64, S16, "thorough")):
        for (pre, shape) in ((0, 1), (1, 1), (0, 4), (2, 2), (1, 3), (0, 0)):
            deep = shape >= 2
            if deep and n in (16,) and be == G8:
                continue  # two groups: a second split returns None
            T("c19_split_n%d_%s_p%d_s%d" % (n, be[0], pre, shape), "c19::range_split::<%d>(%d, %d)" % (n, pre, shape), n, be=be, props=("C19",),
              tier=tier if not (be == S16 and n == 32 and (deep or pre or shape == 0)) else "thorough", timeout=1500 if tier == "quick" else 14400, mem_gb=14 if tier == "quick" else 40)
    T("c19_range_split_n8", "c19::range_split::<8>(1, 1)", 8, be=G8, props=("C19",))
    T("c19_par_iter_producer_n16", "c19::par_iter_producer::<16>(true)", 16, be=G8, props=("C19",))
    T("c19_par_iter_producer_n16_nosplit", "c19::par_iter_producer::<16>(false)", 16, be=G8, props=("C19",))
    T("c19_par_iter_producer_n32", "c19::par_iter_producer::<32>(true)", 32, be=S16, props=("C19",), timeout=14400, tier="thorough", mem_gb=30)
    for (lim, sp, fr) in ((1, True, False), (0, True, True), (99, True, False), (2, False, False), (99, False, False)):
        T("c19_par_drain_n16_l%d_%d%d" % (lim, sp, fr), "c19::par_drain_producer::<16>(%d, %s, %s)" % (lim, str(sp).lower(), str(fr).lower()), 16, be=G8,
          props=("C19", "C03"), timeout=1800)
    T("c19_par_drain_producer_n8", "c19::par_drain_producer::<8>(1, true, false)", 8, be=G8, props=("C19", "C03"))
    # ------------------------------------------------------------------ C20 serde
    for w, wn in enumerate(("map", "set", "set_in_place")):
        T("c20_hint_bounded_%s" % wn, "c20::hint_bounded(%d)" % w, 8, props=("C20",), bounds="all 2^64 claimed lengths incl. None")
    T("c20_map_err_1_at0", "c20::map_entries::<1>(0)", 4, items=1, be=G8, props=("C20",), unwind=4)
    T("c20_map_err_1_at1", "c20::map_entries::<1>(1)", 4, items=1, be=G8, props=("C20",), unwind=4)
    T("c20_map_ok_1", "c20::map_entries::<1>(9)", 4, items=1, be=G8, props=("C20",), unwind=4)
    T("c20_map_err_2_at1", "c20::map_entries::<2>(1)", 4, items=2, be=G8, props=("C20",), unwind=5, timeout=1800)
    T("c20_map_err_2_at2", "c20::map_entries::<2>(2)", 4, items=2, be=G8, props=("C20",), unwind=5, timeout=3600, tier="thorough", mem_gb=30)
    T("c20_map_plain_1", "c20::map_entries_plain::<1>()", 4, items=1, be=G8, props=("C20",), unwind=4)
    T("c20_map_plain_2", "c20::map_entries_plain::<2>()", 4, items=2, be=G8, props=("C20",), unwind=5)
    T("c20_map_plain_3", "c20::map_entries_plain::<3>()", 4, items=3, be=G8, props=("C20",), timeout=10800, tier="thorough", unwind=6, mem_gb=44)
    T("c20_set_in_place_n8_1", "c20::set_in_place::<8, 1>(2)", 8, items=2, be=G8, props=("C20",), unwind=11)
    T("c20_set_in_place_n8_2", "c20::set_in_place::<8, 2>(3)", 8, items=3, be=G8, props=("C20",), timeout=7200, tier="thorough", unwind=11, mem_gb=30)
    T("c20_serialize_map_n8", "c20::serialize_emits_all::<8>(false)", 8, props=("C20",))
    T("c20_serialize_set_n8", "c20::serialize_emits_all::<8>(true)", 8, be=G8, props=("C20",))
    # ------------------------------------------------------------------ evidence shared between properties (quick tier)
    SHARE = {
        "C13": ["c06_rehash_ct8_b1", "c04_rehash_hook_nodrop_n4", "c08_no_alloc_insert_n4", "c08_no_alloc_insert_n16", "c17_probe_step_all", "c17_probe_visits_g8", "c06_remove_n16",
                "c06_find_n16", "c06_insert_n4_grow", "c06_insert_n16", "c05_find_n16"],
        "C08": ["c17_cap_to_buckets_all", "c17_cap_to_buckets_monotone", "c06_reserve_n8_grow", "c06_clear_n8", "c06_base_cap0", "c06_base_cap3",
                "c06_base_cap14", "c03_grow_n8", "c03_shrink_n8", "c03_no_block_when_unused", "c06_shrink_n8_to4",
                "c14_map_occ_replace_entry_with_n8", "c06_reserve_n4_cross"],
        "C12": ["c17_layout_all", "c06_rehash_ct8_b1_try"],
        "C03": ["c04_clone_from_panic_4_4", "c11_clone_from_8_4", "c19_par_drain_producer_n8", "c04_drop_panic_retain_n8",
                "c04_rehash_hook_drop_n4", "c04_drop_panic_clear_n8"],
        "C02": ["c03_drop_n8", "c17_table_layout_types",
                "c04_rehash_hook_drop_n4", "c04_drop_panic_drain_n8"],
        "C11": ["c07_pred_eq_n4_n4", "c04_clone_from_panic_4_4"],
        "C01": ["c06_rehash_ct8_b1", "c14_map_occ_remove_n8", "c06_base_cap3", "c14_map_occ_replace_entry_with_n8", "c14_map_occ_and_replace_entry_with_n8",
                ],
        "C05": ["c15_table_sloppy_n8_k2", "c14_map_occ_replace_entry_with_n8"],
        "C09": ["c04_rehash_hook_drop_n4", "c02_zst_iterate_n8"],
        "C10": ["c02_zst_remove_n8", "c02_zst_retain_n8", "c02_zst_extract_if_n8"],
        "C14": ["c04_replace_entry_validity_n8", "c07_elem_entry_n8", "c11_clone_n16_counts"],
        "C04": [],
    }
    # Core pack: the structural mechanisms every state-dependent property rests on (erase's tombstone decision,
    # tombstone-aware insert, in-place rehash, growth, free-slot accounting of replace_bucket_with, the rehash
    # panic guard). A change to one of them breaks most properties at once, whichever one it is filed under.
    CORE = ["c06_remove_n16", "c06_insert_n16", "c06_rehash_ct8_b1", "c14_map_occ_replace_entry_with_n8",
            "c06_insert_n4_grow", "c04_rehash_hook_drop_n4", "c17_layout_all", "c17_probe_step_all"]
    for prop in ("C01", "C02", "C03", "C05", "C07", "C09", "C10", "C11", "C14", "C15"):
        SHARE.setdefault(prop, [])
        for n in CORE:
            if n not in SHARE[prop]:
                SHARE[prop].append(n)
    byname = {i["name"]: i for i in L}
    for prop, names in SHARE.items():
        for n in names:
            i = byname[n]
            if prop not in i["props"]:
                i["props"].append(prop)
            i["share_quick"] = tuple(i.get("share_quick", ())) + (prop,)
    return L


def triangular_query(m):
    w = m + 2
    return {
        "name": "triangular_injective_mod_2^%d" % m, "props": ["C17", "C13"], "logic": "QF_BV", "bits": w,
        "script": """(set-logic QF_BV)
(declare-const i (_ BitVec {w}))
(declare-const j (_ BitVec {w}))
(assert (bvult i j))
(assert (bvult j (_ bv{n} {w})))
(define-fun t2 ((x (_ BitVec {w}))) (_ BitVec {w}) (bvmul x (bvadd x (_ bv1 {w}))))
(assert (= ((_ extract {m} 0) (t2 i)) ((_ extract {m} 0) (t2 j))))
(check-sat)
""".format(w=w, n=2 ** m, m=m),
    }


def smt_queries(tier):
    """Closed-form lemma: T(i) = i(i+1)/2 is injective mod 2^m on 0..2^m, i.e. the triangular probe
    sequence (step harness c17_probe_step_all ties the real code to this closed form) visits every
    group exactly once. 2T(x) = x(x+1) is compared mod 2^(m+1)."""
    ms = list(range(1, 13)) if tier == "quick" else list(range(1, 17))
    qs = []
    for m in ms:
        q = triangular_query(m)
        q["timeout"] = 120 if tier == "quick" else 600
        qs.append(q)
    if tier == "thorough":
        for m in (18, 20):
            q = triangular_query(m)
            q["timeout"] = 600
            q["optional"] = True
            qs.append(q)
    return qs
