#!/bin/sh
# Offline setup: pre-builds the dependency graph of the harness crate for both back-ends so that
# the first check does not pay for it. Everything is rebuilt from /repo's current tree on every check.
set -e
cd "$(dirname "$0")"
mkdir -p .work evidence replays
export CARGO_NET_OFFLINE=true
python3 - <<'PY'
import check
insts = check.load_instances()
check.gen_instances_rs(insts)
import os, shutil
os.makedirs(check.WORK, exist_ok=True)
d = os.path.join(check.WORK, "setup-run")
shutil.rmtree(d, ignore_errors=True); os.makedirs(d)
for be in ("g8", "s16"):
    outs, secs, log = check.codegen(be, ["c17_mask_to_capacity_all"], d)
    print("setup: back-end %s built in %.0fs: %s" % (be, secs, "ok" if outs else "FAILED"))
    if not outs:
        print(log[-3000:]); raise SystemExit(1)
shutil.rmtree(d, ignore_errors=True)
PY
