#!/usr/bin/env python3
"""Writes MANIFEST.json from the table below (kept in one place so that it stays valid)."""
import json, subprocess
ALL = ["C%02d" % i for i in range(1, 21)]
CLAIMED = {
    "C17": dict(
        technique="bounded model checking of the real arithmetic functions (Kani/CBMC, all 64-bit inputs) + SMT lemma (z3 and cvc5) for the triangular probe sequence",
        text="capacity_to_buckets, bucket_mask_to_capacity, calculate_layout_for, TableLayout::new and ProbeSeq::move_next are executed symbolically over ALL 64-bit inputs (no input bound; loop-free code), so every rounding boundary the tests cannot sample is covered; probe coverage is decided by a step harness on the real move_next plus the closed-form lemma T(i)!=T(j) mod 2^m discharged by two SMT solvers for m<=12 (quick) / 16 (thorough), and directly on the real code for 1..8 (64) groups",
        note="trusted: Kani's MIR->goto translation, CBMC, CaDiCaL, z3/cvc5; probe lemma bounded to tables of 2^16 groups; hooks v_capacity_to_buckets/v_calculate_layout_for/v_probe_next are thin wrappers (src/raw/verif_hooks.rs)",
        design="7 (C17)"),
}
CLAIMED["C18"] = dict(
    technique="bounded model checking of the real group-scanner primitives over every group of bytes on both back-ends (Kani/CBMC), plus the same step harnesses decided on both back-ends against one reference model",
    text="match_tag / match_empty / match_empty_or_deleted / match_full / convert_special_to_empty_and_full_to_deleted / BitMask iteration, leading and trailing zero counts are compared with their byte-by-byte definition for EVERY 16-byte (SSE2) and 8-byte (portable) group and every tag: no input bound, loop-free code; the portable tag-match false positives are allowed exactly as the property states; behavioural identity is decided by running find/insert/remove/iterate/retain step harnesses on both back-ends against the same back-end independent model",
    note="trusted: Kani's models of the SSE2 intrinsics (_mm_cmpeq_epi8, _mm_movemask_epi8, _mm_cmpgt_epi8, _mm_or_si128); --cfg miri selects generic.rs exactly as the crate's own cfg chain does; iteration order is not part of the property",
    design="7 (C18)")
NA = {
    "C16": "type-level property (auto traits, variance, borrow lifetimes): decided by rustc's trait solver and borrow checker over types; there are no run-time values, paths or states to make symbolic, and no SMT encoding of Rust's trait/region rules is available in this sandbox (Creusot/Prusti absent)",
}
def main():
    checks = []
    for p in ALL:
        if p in CLAIMED:
            c = CLAIMED[p]
            checks.append({
                "property_id": p,
                "quick_cmd": "./check.py %s --tier quick" % p,
                "thorough_cmd": "./check.py %s --tier thorough" % p,
                "evidence_file": "evidence/%s.json" % p,
                "replay_cmd_template": "./check.py %s --replay {path}" % p,
                "engine": "kani-cbmc" + ("+smt" if p == "C17" else ""),
                "level_claimed": {"category": "model_checking", "text": c["text"], "design_ref": "DESIGN.md section " + c["design"]},
                "level_note": c["note"],
                "technique": c["technique"],
            })
    na = [{"property_id": p, "reason": NA.get(p, "check not built yet in this round (planned in DESIGN.md section 7); not claimed until its harnesses exist and pass")}
          for p in ALL if p not in CLAIMED]
    hook_commits = subprocess.run(["git", "-C", "/repo", "log", "--format=%H %s"], capture_output=True, text=True).stdout.splitlines()
    hooks = [l.split()[0] for l in hook_commits if "verif hook" in l]
    m = {
        "version": 1,
        "setup_cmd": "./setup.sh",
        "hooks": {
            "guard": "--cfg hashbrown_verif",
            "enable": "RUSTFLAGS='--cfg hashbrown_verif' (plus '--cfg miri' to select the portable 8-byte group back-end); set by check.py for every build",
            "baseline_off_cmd": "cd /repo && cargo nextest run --workspace --no-fail-fast --tool-config-file pb:/w/lib/nextest.toml --profile pb --test-threads 8 --offline || cargo test --workspace --no-fail-fast --offline",
            "source_commits": hooks,
            "add_only": True,
        },
        "engines": [
            {"name": "kani-cbmc", "path": "check.py", "serves_properties": sorted(CLAIMED),
             "kind_free_text": "Kani 0.68 compiler (MIR of /repo's current tree -> goto), goto-cc/goto-instrument as kani-driver runs them, CBMC 6.11 + CaDiCaL with per-loop unwindsets and unwinding assertions; counterexamples replayed with cargo kani playback (dev and release)"},
            {"name": "smt", "path": "harnesses.py:smt_queries", "serves_properties": ["C17", "C13"],
             "kind_free_text": "SMT-LIB2 QF_BV lemma, z3 4.8.12 and cvc5 1.0 must both answer unsat"},
        ],
        "checks": checks,
        "not_applicable": na,
        "notes": "All checks: ./check.py <id> --tier quick|thorough. Scratch build output lives in /verif/.work (git-ignored, recreated on demand). See DESIGN.md.",
    }
    json.dump(m, open("MANIFEST.json", "w"), indent=1)
if __name__ == "__main__":
    main()
