#!/usr/bin/env python3
"""Writes MANIFEST.json from the table below (kept in one place so that it stays valid)."""
import json, subprocess
ALL = ["C%02d" % i for i in range(1, 21)]
CLAIMED = {
    "C17": dict(
        technique="bounded model checking of the real arithmetic functions (Kani/CBMC, all 64-bit inputs) + SMT lemma (z3 and cvc5) for the triangular probe sequence",
        text="capacity_to_buckets, bucket_mask_to_capacity, calculate_layout_for, TableLayout::new and ProbeSeq::move_next are executed symbolically over ALL 64-bit inputs (no input bound; loop-free code), so every rounding boundary the tests cannot sample is covered; probe coverage is decided by a step harness on the real move_next plus the closed-form lemma T(i)!=T(j) mod 2^m discharged by two SMT solvers for m<=12 (quick) / 16 (thorough), and directly on the real code for 1..8 (64) groups",
        note="trusted: Kani's MIR->goto translation, CBMC, CaDiCaL, z3/cvc5; probe lemma bounded to tables of 2^16 groups; hooks v_capacity_to_buckets/v_calculate_layout_for/v_probe_next are thin wrappers (src/raw/verif_hooks.rs)",
        design="7 (C17)"),
}
STEP = ("inductive step harnesses over the real code: symbolic pre-state (arbitrary control bytes, elements, hash table H[K], occupancy counts) "
        "satisfying the representation invariant, ONE API call with symbolic arguments, result compared with a reference model and the invariant re-established; "
        "decided by Kani/CBMC (CaDiCaL) with per-loop unwind bounds derived from the code and unwinding assertions on")
TRUST = ("trusted: Kani 0.68 MIR->goto translation, CBMC 6.11, CaDiCaL; Kani's allocator model; the invariant Inv/Inv_safe of DESIGN section 3 over-approximates the reachable states of "
         "a given table size, so the step covers histories of any length within that size; table sizes are bounded (see bounds per harness in the evidence file); "
         "uninitialised reads, aliasing models and threads are not checked")
def C(pid, technique, text, note, design):
    CLAIMED[pid] = dict(technique=technique, text=text, note=note, design=design)
C("C01", "bounded model checking of HashMap step harnesses (Kani/CBMC) against an association-list model, hasher = symbolic table",
  STEP + ". Calls: get/get_mut/contains_key/get_key_value (also through an Equivalent borrowed form), insert (overwrite keeps the stored key), remove/remove_entry, retain, clear, reserve, shrink_to(_fit), entry_ref and Occupied-entry methods; table sizes 4, 8, 16 buckets, growth 4->8 and 8->16; every hash plan is one symbolic variable",
  TRUST + "; HashMap::entry(K)+VacantEntry::insert, try_insert and extend are thorough-tier only (engine limitation, DESIGN section 0); in-place rehash with element moves thorough-tier only", "7 (C01), 0")
C("C02", "CBMC's memory-safety checks (dereference validity, same-object pointer arithmetic, alignment, overflow, unreachable_unchecked, debug assertions) on every harness + layout/ZST/leaked-guard harnesses",
  "every instruction executed in every harness is checked for invalid/dead/out-of-bounds dereference, cross-object pointer arithmetic, misalignment, arithmetic overflow and reachable unreachable_unchecked, from symbolic pre-states; own harnesses instantiate the structural operations for element layouts u16, u64, [u64;3], align-32, 200-byte and zero-sized elements, and leak (mem::forget) iter_mut/drain/extract_if/into_iter/entries part-way and then use and drop the collection",
  TRUST + "; layouts at N=4/8 only; the layout arithmetic for all sizes/alignments is C17", "7 (C02)")
C("C03", "bounded model checking with a per-id drop ledger element type and an allocation-ledger allocator (Kani/CBMC)",
  STEP + ". Element type asserts 'dropped at most once' in its Drop and the harness asserts 'exactly once or handed to the caller' per id after remove, clear, retain, extract_if/drain/into_iter cut at a symbolic point, shrink, grow, clone, clone_from into an occupied target, drop; the allocator ledger checks every block is returned once with its layout, nothing stays allocated, and an unused collection never allocates",
  TRUST + "; N <= 8 (16 for drop); cut points <= 3 items", "7 (C03)")
C("C04", "bounded model checking with emulated unwinding (cfg-guarded unwind points run the real scope guards) + callback-time validity assertions; counterexamples replayed natively with real panics",
  "a callback 'panics' at its symbolic k-th invocation by setting a flag; cfg(hashbrown_verif) early returns placed directly after the callback call sites leave each frame the way an unwind would, so the REAL guard closures run on the real state; afterwards: invariant, len()==#FULL==iteration count, every element present or dropped exactly once, growth leaves the table bit-identical and frees the new block. Covered: hasher panic in grow (4->8, 8->16) and in the in-place rehash routine (hook entry, N<=8), Clone panic in clone_from (4 structural paths), Drop panic in clear/drop/drain/into_iter/retain/shrink, predicate and replace_entry_with closures by callback-time validity. Found the rehash-guard defect (fixed, known_findings.json)",
  TRUST + "; trusted additionally: early return == unwinding for the instrumented frames (every counterexample is replayed with a real panic! under catch_unwind); panics out of hashbrown's own assert!s, Into conversions and extend iterators are outside (DESIGN sections 0 and 5)", "5, 7 (C04), 10")
C("C05", "bounded model checking with fully nondeterministic Hash and Eq answers (fresh symbolic value per call)",
  "the hasher returns a fresh arbitrary u64 and eq a fresh arbitrary bool on every call; checked: no memory-safety check fails, every probe loop terminates within the code-derived unwind bounds (unwinding assertions), invariant Inv_safe afterwards, len()==#FULL==iteration count, drop ledger exact; for find, remove, insert (incl. growth), entry, retain, iter_hash, reserve, get_many_mut with closures matching several entries",
  TRUST + "; N in {4, 8, 16}", "7 (C05)")
C("C06", "bounded model checking of HashTable step harnesses (Kani/CBMC) against a multiset model with caller-supplied symbolic hashes",
  STEP + ". Calls: find/find_mut, find_entry+remove and re-insert through the returned VacantEntry, entry (Occupied/Vacant, also at growth_left==0), insert_unique incl. duplicates and growth, reserve, shrink_to, clear, iter_hash (every element with that hash, no bucket twice, fused), base cases new/with_capacity; sizes 4, 8, 16 (two groups, tombstones) on the portable back-end, 4 and 8 on SSE2",
  TRUST + "; in-place rehash with element moves thorough-tier only", "7 (C06), 0")
C("C07", "bounded model checking of HashSet operations over two independent symbolic sets (different symbolic hashers) against boolean membership vectors",
  "union/intersection/difference/symmetric_difference driven to exhaustion with per-id counters and size_hint bracketing at every step, is_subset/is_superset/is_disjoint/== (symmetric), the assigning operators |= &= ^= -= (both strategy branches of -=), insert/replace/take/get_or_insert/get_or_insert_with/remove/contains incl. 'a non-equivalent get_or_insert_with never returns'",
  TRUST + "; sets of 4 and 8 buckets; the by-reference operators and HashSet::entry are thorough-tier only; the post-state after get_or_insert_with's refusal panic is not observable (DESIGN section 0)", "7 (C07)")
C("C08", "bounded model checking (allocator ledger) + full-width arithmetic harnesses on capacity_to_buckets",
  "capacity()>=len(); reserve(n)/with_capacity(n) give room for n; one-step lemma: from any state with growth_left>=1 an insert makes no allocator call and lowers the spare room by at most one; new/with_capacity(0) allocate nothing; clear/drain keep the block; allocation_size()==bytes held (ledger); shrink_to(m): contents kept, never enlarges, capacity>=max(len,min(m,cap)), frees everything iff len==0 and m==0, bucket count == what with_capacity(max(len,m)) picks; arithmetic part over all 64-bit capacities",
  TRUST + "; the induction over capacity()-len() inserts is a paper step", "7 (C08)")
C("C09", "bounded model checking of every iterator from symbolic occupancy patterns (incl. tombstones, first/last bucket, several groups)",
  "iter/iter_mut/into_iter/drain of HashTable and the HashMap/HashSet wrappers (keys, values, values_mut, into_keys, into_values): next() driven to a symbolic cut with size_hint()==(r,Some(r)) and len()==r at every step, then continued by next()/fold()/clone(); every FULL slot exactly once, nothing else, fused, Default iterators empty, zero-sized elements",
  TRUST + "; N in {4, 8, 16} quick, 32/64 thorough", "7 (C09)")
C("C10", "bounded model checking with an arbitrary predicate truth table and call counters",
  "retain: predicate called once per element, exactly the true ones kept, &mut writes persist, probe chains intact afterwards (invariant incl. 'still findable'); extract_if driven <=3 steps then dropped: yielded == visited and selected, everything else still present; drain: each element once, table empty with the same block and usable; HashTable, HashMap, HashSet, zero-sized elements",
  TRUST + "; retain N<=8, extract_if N=4 in the quick tier (larger thorough)", "7 (C10)")
C("C11", "bounded model checking with a clone/drop ledger element type",
  "clone(): identical layout in a different block, each element cloned once, a removal on either side leaves the other untouched; clone_from for target/source bucket counts {4,8,unallocated}: old contents dropped once, result equals the source, old block returned; ==: two maps/sets with different symbolic hashers, capacities and tombstones are equal exactly when their models are equal, symmetric",
  TRUST + "; == at 4x4 buckets in the quick tier", "7 (C11)")
C("C12", "bounded model checking: all 2^64 values of `additional` against a refusing allocator; allocator refusing the request on non-empty tables",
  "try_reserve on an unallocated table with an allocator that refuses everything, for ALL values of additional and element types (), u8, u32, [u64;3], align-32 and two huge never-instantiated types: never panics, CapacityOverflow exactly when the table is not representable (u128 reference), otherwise AllocError carrying the refused layout, every requested layout valid; on non-empty tables a refusal leaves the table bit-identical, nothing dropped or leaked, a grant gives capacity>=len+additional",
  TRUST + "; granted requests use concrete additional (a symbolic granted size does not finish)", "7 (C12)")
C("C13", "three lemmas: step harnesses on the real code, full-width arithmetic harness, SMT lemma (probe coverage)",
  "L1: insert/entry leave the bucket count unchanged unless items+1 > capacity/2 and remove never changes it; L2 (all table sizes, arithmetic on the real capacity_to_buckets): the next size is at most twice the current and at most 8x the live elements; free-slot accounting (no allocation while growth_left>=1); termination: unwinding assertions with code-derived bounds on every probe loop from every Inv_safe state incl. tombstone-saturated tables and absent keys, under arbitrary hash answers, plus C17's probe-coverage lemma",
  TRUST + "; the induction over the history is a paper step", "7 (C13)")
C("C14", "bounded model checking: entry-style call and plain call compared through the same reference model",
  STEP + ". entry_ref, raw_entry (from_key/from_key_hashed_nocheck/from_hash), raw_entry_mut (or_insert, insert, insert_hashed_nocheck, insert_with_hasher, remove_entry, insert_key, and_replace_entry_with, unused Vacant), rustc_entry (feature rustc-internal-api: or_insert, insert, remove, unused, insert_entry, and_modify/or_default), HashMap::entry Occupied methods (remove, remove_entry, replace_entry_with, and_replace_entry_with) and unused Vacant; also at full load (growth 4->8)",
  TRUST + "; HashMap::entry(K)+VacantEntry::insert and HashSet::entry thorough-tier only (DESIGN section 0)", "7 (C14)")
C("C15", "bounded model checking of get_many_mut incl. sloppy (nondeterministic) equality closures",
  "HashTable::get_many_mut for 0..3 requests and HashMap::get_many_mut/get_many_key_value_mut: assertions after the call state 'returns => pointers pairwise distinct, each into a live slot holding the requested element, absent => None, sentinel writes land exactly there'; with pairwise distinct requests the documented panic must be unreachable; with duplicates or sloppy closures it is the only other outcome",
  TRUST + "; N in {4, 8, 16}", "7 (C15)")
C("C19", "bounded model checking of the sequential core of the rayon adaptors along explicitly driven split trees",
  "RawIterRange::split: for fixed tree shapes (depth <= 2, with and without a consumed prefix) the leaves partition the remaining FULL buckets; ParIterProducer split/fold_with; ParDrainProducer split (forgets self), fold_with a consumer that becomes full after k items, Drop of unconsumed halves: every element delivered or dropped exactly once; the guard's clear_no_drop leaves a valid empty table",
  TRUST + "; NOT covered: rayon's scheduler, bridge_unindexed, par_extend/from_par_iter/par_eq and the parallel set operations (they execute on a thread pool the engine cannot run)", "7 (C19)")
C("C20", "bounded model checking with harness-local Deserializer/MapAccess/SeqAccess/Serializer",
  "for ALL claimed size hints (Option<usize>, 2^64 values) the first allocator request of map/set/deserialize_in_place is no larger than a 4096-entry table; duplicate keys: last value wins, each key once; an error at each entry position returns Err with every built value dropped once and no block left; deserialize_in_place replaces the contents; Serialize emits every entry exactly once with the right claimed length",
  TRUST + "; <= 2 entries (3 thorough); real formats are out of scope (the Visitors only see these traits)", "7 (C20)")
CLAIMED["C18"] = dict(
    technique="bounded model checking of the real group-scanner primitives over every group of bytes on both back-ends (Kani/CBMC), plus the same step harnesses decided on both back-ends against one reference model",
    text="match_tag / match_empty / match_empty_or_deleted / match_full / convert_special_to_empty_and_full_to_deleted / BitMask iteration, leading and trailing zero counts are compared with their byte-by-byte definition for EVERY 16-byte (SSE2) and 8-byte (portable) group and every tag: no input bound, loop-free code; the portable tag-match false positives are allowed exactly as the property states; behavioural identity is decided by running find/insert/remove/iterate/retain step harnesses on both back-ends against the same back-end independent model",
    note="trusted: Kani's models of the SSE2 intrinsics (_mm_cmpeq_epi8, _mm_movemask_epi8, _mm_cmpgt_epi8, _mm_or_si128); --cfg miri selects generic.rs exactly as the crate's own cfg chain does; iteration order is not part of the property",
    design="7 (C18)")
NA = {
    "C16": "type-level property (auto traits, variance, borrow lifetimes): decided by rustc's trait solver and borrow checker over types; there are no run-time values, paths or states to make symbolic, and no SMT encoding of Rust's trait/region rules is available in this sandbox (Creusot/Prusti absent)",
}
def main():
    checks = []
    for p in ALL:
        if p in CLAIMED:
            c = CLAIMED[p]
            checks.append({
                "property_id": p,
                "quick_cmd": "./check.py %s --tier quick" % p,
                "thorough_cmd": "./check.py %s --tier thorough" % p,
                "evidence_file": "evidence/%s.json" % p,
                "replay_cmd_template": "./check.py %s --replay {path}" % p,
                "engine": "kani-cbmc" + ("+smt" if p in ("C17", "C13") else ""),
                "level_claimed": {"category": "model_checking", "text": c["text"], "design_ref": "DESIGN.md section " + c["design"]},
                "level_note": c["note"],
                "technique": c["technique"],
            })
    na = [{"property_id": p, "reason": NA.get(p, "check not built yet in this round (planned in DESIGN.md section 7); not claimed until its harnesses exist and pass")}
          for p in ALL if p not in CLAIMED]
    hook_commits = subprocess.run(["git", "-C", "/repo", "log", "--format=%H %s"], capture_output=True, text=True).stdout.splitlines()
    hooks = [l.split()[0] for l in hook_commits if "verif hook" in l]
    m = {
        "version": 1,
        "setup_cmd": "./setup.sh",
        "hooks": {
            "guard": "--cfg hashbrown_verif",
            "enable": "RUSTFLAGS='--cfg hashbrown_verif' (plus '--cfg miri' to select the portable 8-byte group back-end); set by check.py for every build",
            "baseline_off_cmd": "cd /repo && cargo nextest run --workspace --no-fail-fast --tool-config-file pb:/w/lib/nextest.toml --profile pb --test-threads 8 --offline || cargo test --workspace --no-fail-fast --offline",
            "source_commits": hooks,
            "add_only": True,
        },
        "engines": [
            {"name": "kani-cbmc", "path": "check.py", "serves_properties": sorted(CLAIMED),
             "kind_free_text": "Kani 0.68 compiler (MIR of /repo's current tree -> goto), goto-cc/goto-instrument as kani-driver runs them, CBMC 6.11 + CaDiCaL with per-loop unwindsets and unwinding assertions; counterexamples replayed with cargo kani playback (dev and release)"},
            {"name": "smt", "path": "harnesses.py:smt_queries", "serves_properties": ["C17", "C13"],
             "kind_free_text": "SMT-LIB2 QF_BV lemma, z3 4.8.12 and cvc5 1.0 must both answer unsat"},
        ],
        "checks": checks,
        "not_applicable": na,
        "notes": "All checks: ./check.py <id> --tier quick|thorough. Scratch build output lives in /verif/.work (git-ignored, recreated on demand). See DESIGN.md.",
    }
    json.dump(m, open("MANIFEST.json", "w"), indent=1)
if __name__ == "__main__":
    main()
