use hashbrown::HashMap;
use std::cell::Cell;
use std::hash::{BuildHasher, Hasher};
use std::panic::{catch_unwind, AssertUnwindSafe};
use std::rc::Rc;

#[derive(Clone)]
struct S { fuse: Rc<Cell<i64>> }
struct H { v: u64, fuse: Rc<Cell<i64>> }
impl BuildHasher for S { type Hasher = H; fn build_hasher(&self) -> H { H { v: 0, fuse: self.fuse.clone() } } }
impl Hasher for H {
    fn write(&mut self, b: &[u8]) { for x in b { self.v = self.v * 256 + *x as u64; } }
    fn write_u64(&mut self, x: u64) { self.v = x; }
    fn finish(&self) -> u64 {
        let f = self.fuse.get();
        if f == 0 { self.fuse.set(-1); panic!("hasher fuse"); }
        if f > 0 { self.fuse.set(f - 1); }
        // spread: low bits position, top bits tag
        self.v | (self.v << 57)
    }
}
pub fn main() {
    let fuse = Rc::new(Cell::new(-1));
    let mut m: HashMap<u64, u64, S> = HashMap::with_hasher(S { fuse: fuse.clone() });
    // fill to capacity 28 (32 buckets)
    for i in 0..28u64 { m.insert(i, i); }
    println!("cap {} len {}", m.capacity(), m.len());
    // remove most, creating tombstones
    for i in 4..24u64 { m.remove(&i); }
    println!("after removes: cap {} len {}", m.capacity(), m.len());
    // insert new keys until growth_left hits 0 -> in-place rehash
    let k = 29u64;
    println!("before: cap {} len {}", m.capacity(), m.len());
    let len_before = m.len();
    fuse.set(2); // panic at the 3rd hash call from now (1 for the insert key itself, then rehash calls)
    let r = catch_unwind(AssertUnwindSafe(|| { m.insert(k, k); }));
    println!("panicked: {}", r.is_err());
    fuse.set(-1);
    println!("after: len {} (before {}), iter count ...", m.len(), len_before);
    let cnt = m.iter().count();
    println!("iter count {}", cnt);
}
