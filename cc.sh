#!/bin/sh
# quick compile check of the harness crate under kani (g8), after regenerating instances.rs
cd /verif && python3 -c "import check; check.gen_instances_rs(check.load_instances())" && cd /verif/harness && RUSTFLAGS="--cfg hashbrown_verif --cfg miri" CARGO_NET_OFFLINE=true cargo kani --only-codegen --harness c17_mask_to_capacity_all --target-dir /verif/.work/tgt-g8 2>&1 | grep -A12 "^error" | head -${1:-60}
